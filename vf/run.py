"""python -m vf.run <id> <quick|thorough>   |   python -m vf.run --replay <file>"""
import importlib
import json
import os
import sys
import traceback

from .common import EXIT_INCONCLUSIVE, Inconclusive, Report, run_native, use_repo


def main(argv):
    if argv and argv[0] == "--replay":
        with open(argv[1]) as f:
            payload = json.load(f)
        res = run_native(payload["module"], payload["func"], payload["payload"])
        print(json.dumps(res, indent=1, default=repr))
        return 1 if res.get("reproduced") else 0
    prop = argv[0].upper()
    tier = "quick"
    for a in argv[1:]:
        if a in ("quick", "thorough"):
            tier = a
        elif a.startswith("--tier="):
            tier = a.split("=", 1)[1]
    tier = os.environ.get("VERIF_TIER", tier) if len(argv) < 2 else tier
    use_repo()
    rep = Report(prop, tier)
    try:
        mod = importlib.import_module("vf.props." + prop.lower())
        mod.main(rep, tier)
    except Inconclusive as ex:
        rep.inconc(str(ex))
    except Exception:
        rep.inconc("harness error: " + traceback.format_exc()[-3000:])
    return rep.finish()


if __name__ == "__main__":
    sys.exit(main(sys.argv[1:]))
