"""E-SMT: Python regular expressions and PyYAML resolver tables -> z3 sequence/regex terms.

Everything is translated from *live objects* (compiled patterns found in the running
jsonargparse / PyYAML), never transcribed. The translator is validated on every run against
Python's own `re` on solver-generated members and non-members (see validate()).
"""
import re
import sys
import time
import unicodedata

import z3

try:  # Python 3.11+
    import re._constants as sre_c
    import re._parser as sre_p
except ImportError:  # pragma: no cover
    import sre_constants as sre_c
    import sre_parse as sre_p

from .common import Inconclusive

MAXCHAR = 0x2FFFF  # z3's character domain


class Unsupported(Inconclusive):
    pass


def _ch(c):
    return z3.StringVal(chr(c)) if isinstance(c, int) else z3.StringVal(c)


def _range(lo, hi):
    return z3.Range(_ch(lo), _ch(hi))


ALLCHAR = z3.AllChar(z3.ReSort(z3.StringSort()))
FULL = z3.Full(z3.ReSort(z3.StringSort()))
EMPTYSET = z3.Empty(z3.ReSort(z3.StringSort()))
EPS = z3.Re(z3.StringVal(""))

_cat_cache = {}


def _category_ranges(pred):
    """Ranges of code points <= MAXCHAR satisfying pred (computed from unicodedata)."""
    out = []
    start = None
    for cp in range(MAXCHAR + 1):
        ok = pred(chr(cp))
        if ok and start is None:
            start = cp
        elif not ok and start is not None:
            out.append((start, cp - 1))
            start = None
    if start is not None:
        out.append((start, MAXCHAR))
    return out


def _category(cat, ascii_only):
    key = (cat, ascii_only)
    if key in _cat_cache:
        return _cat_cache[key]
    neg = False
    base = cat
    names = {
        sre_c.CATEGORY_DIGIT: "digit", sre_c.CATEGORY_NOT_DIGIT: "!digit",
        sre_c.CATEGORY_SPACE: "space", sre_c.CATEGORY_NOT_SPACE: "!space",
        sre_c.CATEGORY_WORD: "word", sre_c.CATEGORY_NOT_WORD: "!word",
    }
    name = names.get(cat)
    if name is None:
        raise Unsupported(f"regex category {cat}")
    if name.startswith("!"):
        neg = True
        name = name[1:]
    if ascii_only:
        rngs = {"digit": [(48, 57)], "space": [(9, 13), (32, 32)], "word": [(48, 57), (65, 90), (95, 95), (97, 122)]}[name]
    else:
        if name == "digit":
            rngs = _category_ranges(lambda c: unicodedata.category(c) == "Nd")
        elif name == "space":
            rngs = _category_ranges(lambda c: c.isspace())
        else:
            rngs = _category_ranges(lambda c: c.isalnum() or c == "_")
    r = _union([_range(a, b) for a, b in rngs])
    if neg:
        r = z3.Intersect(ALLCHAR, z3.Complement(r))
    _cat_cache[key] = r
    return r


def _union(rs):
    rs = list(rs)
    if not rs:
        return EMPTYSET
    if len(rs) == 1:
        return rs[0]
    return z3.Union(*rs)


def _concat(rs):
    rs = [r for r in rs if r is not EPS]
    if not rs:
        return EPS
    if len(rs) == 1:
        return rs[0]
    return z3.Concat(*rs)


def _tr_in(items, flags):
    ascii_only = bool(flags & re.ASCII)
    neg = False
    parts = []
    for op, arg in items:
        if op is sre_c.NEGATE:
            neg = True
        elif op is sre_c.LITERAL:
            parts.append(_lit(arg, flags))
        elif op is sre_c.RANGE:
            if flags & re.IGNORECASE:
                raise Unsupported("IGNORECASE range")
            parts.append(_range(arg[0], min(arg[1], MAXCHAR)))
        elif op is sre_c.CATEGORY:
            parts.append(_category(arg, ascii_only))
        else:
            raise Unsupported(f"regex set item {op}")
    r = _union(parts)
    if neg:
        r = z3.Intersect(ALLCHAR, z3.Complement(r))
    return r


def _lit(c, flags):
    if c > MAXCHAR:
        raise Unsupported("literal beyond z3's character domain")
    if flags & re.IGNORECASE:
        ch = chr(c)
        alts = {ch, ch.lower(), ch.upper()}
        if any(len(a) != 1 for a in alts):
            raise Unsupported("IGNORECASE multi-char fold")
        return _union([z3.Re(_ch(a)) for a in sorted(alts)])
    return z3.Re(_ch(c))


def _tr(sub, flags):
    out = []
    for op, arg in sub:
        if op is sre_c.LITERAL:
            out.append(_lit(arg, flags))
        elif op is sre_c.NOT_LITERAL:
            if flags & re.IGNORECASE:
                raise Unsupported("IGNORECASE not-literal")
            out.append(z3.Intersect(ALLCHAR, z3.Complement(z3.Re(_ch(arg)))))
        elif op is sre_c.ANY:
            if flags & re.DOTALL:
                out.append(ALLCHAR)
            else:
                out.append(z3.Intersect(ALLCHAR, z3.Complement(z3.Re(_ch("\n")))))
        elif op is sre_c.IN:
            out.append(_tr_in(arg, flags))
        elif op is sre_c.BRANCH:
            out.append(_union([_tr(b, flags) for b in arg[1]]))
        elif op is sre_c.SUBPATTERN:
            group, add_flags, del_flags, p = arg
            if add_flags or del_flags:
                raise Unsupported("inline flags")
            out.append(_tr(p, flags))
        elif op in (sre_c.MAX_REPEAT, sre_c.MIN_REPEAT):
            lo, hi, p = arg
            inner = _tr(p, flags)
            if hi is sre_c.MAXREPEAT:
                if lo == 0:
                    out.append(z3.Star(inner))
                elif lo == 1:
                    out.append(z3.Plus(inner))
                else:
                    out.append(z3.Concat(z3.Loop(inner, lo, lo), z3.Star(inner)))
            else:
                if lo == 0 and hi == 1:
                    out.append(z3.Option(inner))
                else:
                    out.append(z3.Loop(inner, lo, hi))
        elif op is sre_c.AT:
            if arg in (sre_c.AT_BEGINNING, sre_c.AT_BEGINNING_STRING):
                out.append(EPS)  # valid at the start only; checked by validate()
            elif arg is sre_c.AT_END:
                if flags & re.MULTILINE:
                    raise Unsupported("MULTILINE $")
                out.append(z3.Option(z3.Re(_ch("\n"))))  # valid at the end only; checked by validate()
            elif arg is sre_c.AT_END_STRING:
                out.append(EPS)
            else:
                raise Unsupported(f"anchor {arg}")
        else:
            raise Unsupported(f"regex construct {op}")
    return _concat(out)


def _ends_anchored(sub):
    if not len(sub):
        return False
    op, arg = sub[len(sub) - 1]
    if op is sre_c.AT and arg in (sre_c.AT_END, sre_c.AT_END_STRING):
        return True
    if op is sre_c.SUBPATTERN:
        return _ends_anchored(arg[3])
    if op is sre_c.BRANCH:
        return all(_ends_anchored(b) for b in arg[1])
    return False


_lang_cache = {}


def lang(pattern, how="match"):
    """z3 regex of the strings w such that pattern.<how>(w) succeeds (how: match | fullmatch)."""
    if isinstance(pattern, str):
        pattern = re.compile(pattern)
    key = (pattern.pattern, pattern.flags, how)
    if key in _lang_cache:
        return _lang_cache[key]
    if isinstance(pattern.pattern, bytes):
        raise Unsupported("bytes pattern")
    tree = sre_p.parse(pattern.pattern, pattern.flags & ~re.UNICODE | (0 if pattern.flags & re.ASCII else re.UNICODE))
    r = _tr(tree, pattern.flags)
    if how == "match" and not _ends_anchored(tree):
        r = z3.Concat(r, FULL)
    _lang_cache[key] = r
    return r


# ------------------------------------------------------------------------------------ solving


def decode(zs):
    """Python str of a z3 string value (z3 escapes non-printable/non-ASCII as \\u{..})."""
    s = zs.as_string() if hasattr(zs, "as_string") else str(zs)
    return re.sub(r"\\u\{([0-9a-fA-F]+)\}", lambda m: chr(int(m.group(1), 16)), s)


class Q:
    """One solver with push/pop; records every query in the report."""

    def __init__(self, rep, timeout_ms=60000, cross_check=False):
        self.rep = rep
        self.s = z3.Solver()
        self.s.set("timeout", timeout_ms)
        self.cross = cross_check

    def ask(self, name, *constraints, expect=None):
        """Returns ('sat', model) | ('unsat', None); raises Inconclusive on unknown."""
        self.s.push()
        try:
            for c in constraints:
                self.s.add(c)
            t0 = time.time()
            r = str(self.s.check())
            dt = time.time() - t0
            model = self.s.model() if r == "sat" else None
            second = None
            if self.cross:
                second = cvc5_check(self.s)
                # a disagreement is sat against unsat; a time-out or error of the second solver is recorded, not a disagreement
                if second in ("sat", "unsat") and r in ("sat", "unsat") and second != r:
                    self.rep.add_query(name, f"DISAGREE z3={r} cvc5={second}", dt)
                    raise Inconclusive(f"solvers disagree on {name}: z3={r} cvc5={second}")
            self.rep.add_query(name, r, dt, **({"second_solver": "cvc5:" + second} if second else {}))
            if r == "unknown":
                raise Inconclusive(f"solver answered unknown on {name}: {self.s.reason_unknown()}")
            return r, model
        finally:
            self.s.pop()


def cvc5_check(solver, timeout_ms=20000):
    """Re-decide the current assertions of a z3 solver with the cvc5 wheel."""
    try:
        import cvc5
    except ImportError:
        return "skipped"
    smt2 = solver.to_smt2()
    smt2 = re.sub(r"\(set-info[^\n]*\n", "", smt2)
    slv = cvc5.Solver()
    slv.setOption("strings-exp", "true")
    slv.setOption("tlimit-per", str(timeout_ms))
    slv.setLogic("QF_SLIA")
    try:
        parser = cvc5.InputParser(slv)
        parser.setStringInput(cvc5.InputLanguage.SMT_LIB_2_6, smt2, "q")
        sm = parser.getSymbolManager()
        result = None
        while True:
            cmd = parser.nextCommand()
            if cmd.isNull():
                break
            out = cmd.invoke(slv, sm)
            if "sat" in str(out) or "unknown" in str(out):
                result = str(out).strip()
        return result or "no-answer"
    except Exception as ex:
        return "error:" + str(ex)[:100]


def members(r, n, maxlen=12, neg=False):
    """Up to n distinct strings inside (or outside, neg=True) the regular language r, from z3."""
    s = z3.String("w")
    sol = z3.Solver()
    sol.set("timeout", 10000)
    sol.add(z3.Length(s) <= maxlen)
    sol.add(z3.Not(z3.InRe(s, r)) if neg else z3.InRe(s, r))
    out = []
    while len(out) < n and str(sol.check()) == "sat":
        w = sol.model().eval(s, model_completion=True)
        out.append(decode(w))
        sol.add(s != w)
        # steer towards variety: different length or different first char every few models
        if len(out) % 3 == 0:
            sol.add(z3.Length(s) != z3.Length(w))
            sol.push()
    return out


def near_misses(r, n, maxlen=12):
    """Non-members of r that contain a member as a proper suffix or prefix (what separates match from
    search / fullmatch, and a dropped anchor)."""
    s = z3.String("w")
    out = []
    anyplus = z3.Plus(ALLCHAR)
    for shape in (z3.Concat(anyplus, r), z3.Concat(r, anyplus)):
        sol = z3.Solver()
        sol.set("timeout", 10000)
        sol.add(z3.Length(s) <= maxlen, z3.InRe(s, shape), z3.Not(z3.InRe(s, r)))
        k = 0
        while k < n and str(sol.check()) == "sat":
            w = sol.model().eval(s, model_completion=True)
            out.append(decode(w))
            sol.add(s != w)
            k += 1
    return out


def in_lang(w, r):
    return z3.is_true(z3.simplify(z3.InRe(z3.StringVal(w), r)))


def validate(pattern, how="match", extra=(), n=40):
    """Serval-style validation of the translation of one pattern against Python's re.
    Returns (checked, mismatches)."""
    if isinstance(pattern, str):
        pattern = re.compile(pattern)
    r = lang(pattern, how)
    words = set(members(r, n)) | set(members(r, n, neg=True)) | set(extra)
    bad = []
    for w in words:
        py = bool(getattr(pattern, how)(w))
        sm = in_lang(w, r)
        if py != sm:
            bad.append((w, py, sm))
    return len(words), bad


# ------------------------------------------------------------------------ YAML resolver tables


def resolver_tags(table):
    tags = []
    for lst in table.values():
        for tag, _ in lst:
            if tag not in tags:
                tags.append(tag)
    return tags


STR_TAG = "tag:yaml.org,2002:str"


def tag_term(table, s, tag_ids):
    """z3 Int term: the id of the tag Resolver.resolve(ScalarNode, s, (True, False)) returns."""
    str_id = tag_ids[STR_TAG]
    wild = table.get(None, [])

    def chain(lst):
        t = z3.IntVal(str_id)
        for tag, rx in reversed(list(lst) + list(wild)):
            t = z3.If(z3.InRe(s, lang(rx, "match")), z3.IntVal(tag_ids[tag]), t)
        return t

    groups = {}
    for first, lst in table.items():
        if first is None or first == "":
            continue
        if len(first) != 1:
            raise Unsupported("resolver key longer than one char")
        groups.setdefault(tuple(id(rx) for _, rx in lst) + tuple(tag for tag, _ in lst), (lst, []))[1].append(first)
    term = chain([])  # first char with no resolver list
    first = z3.SubString(s, 0, 1)
    for lst, chars in groups.values():
        cond = z3.Or(*[first == z3.StringVal(c) for c in chars])
        term = z3.If(cond, chain(lst), term)
    term = z3.If(s == z3.StringVal(""), chain(table.get("", [])), term)
    return term


def py_resolve(table, w):
    """Reference: what PyYAML's Resolver.resolve does for a plain scalar (used in validation)."""
    lst = table.get("", []) if w == "" else table.get(w[0], [])
    for tag, rx in list(lst) + list(table.get(None, [])):
        if rx.match(w):
            return tag
    return STR_TAG


def all_tag_ids(*tables):
    ids = {STR_TAG: 0}
    for t in tables:
        for tag in resolver_tags(t):
            ids.setdefault(tag, len(ids))
    return ids
