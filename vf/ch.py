"""E-CH: own driver over CrossHair 0.0.110's path explorer.

A *harness* is a zero-argument callable living in a vf.props module. It creates its own
symbolic inputs through the module-level helper `S` (ints, bools, finite choices), runs
real jsonargparse code and returns

    None            path skipped (precondition not met)
    True            the assertion was evaluated and held
    Fail(cls, ...)  the assertion failed; `cls` is the failure class used to group
                    failures, match known findings and select one replay per class

Any exception escaping the harness (other than CrossHair's own BaseExceptions) is a
failure of class "exception:<Type>". Exploration continues past failures; the failing
values are read from the path's solver model (no realisation, the tree does not grow).

Harnesses are run in worker processes (`python -m vf.ch <module> <func> <json-kwargs>`)
so that shards run in parallel and each has its own CPU budget.
"""
import inspect
import json
import os
import random
import subprocess
import sys
import time
import traceback
from concurrent.futures import ThreadPoolExecutor

from .common import REPO, VERIF, Inconclusive, seed, use_repo


class Fail:
    def __init__(self, cls, **info):
        self.cls = cls
        self.info = info

    def __repr__(self):
        return f"Fail({self.cls!r}, {self.info!r})"


class _Sym:
    """Factory for symbolic inputs; keeps a registry so values can be read from the model."""

    def __init__(self):
        self.reg = []  # (name, symbolic or concrete)
        self.path_tags = []
        self.choices = []
        self.replaying = None  # list of [name, value] consumed in creation order (native replay)
        self.window = None  # list of ints: every S.int is a solver-chosen *concrete* member of it (text-level harnesses)
        self.float_menu = [0.0, 0.5, -1.5, 1e16, 1e-05]

    def reset(self):
        self.reg = []
        self.path_tags = []
        self.choices = []

    def shard(self, n):
        """Deterministic shard index of the current path, from the concrete choices made so far."""
        return sum((i + 1) * int(c) for i, c in enumerate(self.choices)) % n

    def _next(self, name):
        if not self.replaying:
            raise RuntimeError(f"replay ran out of values at {name!r}")
        n, v = self.replaying.pop(0)
        if n != name:
            raise RuntimeError(f"replay order mismatch: wanted {name!r}, recorded {n!r}")
        self.reg.append((name, v))
        return v

    def int(self, name, lo=None, hi=None):
        if self.window is not None:
            w = [x for x in self.window if (lo is None or x >= lo) and (hi is None or x <= hi)]
            if lo is not None and hi is not None and not w:
                w = list(range(lo, hi + 1))[:3]
            win, self.window = self.window, None
            try:
                i = self.choice(name, len(w))
            finally:
                self.window = win
            return w[i]
        if self.replaying is not None:
            return int(self._next(name))
        from crosshair.libimpl.builtinslib import SymbolicInt
        from crosshair.statespace import context_statespace
        from crosshair.tracers import NoTracing

        with NoTracing():
            v = SymbolicInt(name + "_" + str(len(self.reg)))
            sp = context_statespace()
            if lo is not None:
                sp.add(v.var >= lo)
            if hi is not None:
                sp.add(v.var <= hi)
            self.reg.append((name, v))
        return v

    def bool(self, name):
        if self.window is not None:
            win, self.window = self.window, None
            try:
                return self.choice(name, 2) == 1
            finally:
                self.window = win
        if self.replaying is not None:
            return bool(self._next(name))
        from crosshair.libimpl.builtinslib import SymbolicBool
        from crosshair.tracers import NoTracing

        with NoTracing():
            v = SymbolicBool(name + "_" + str(len(self.reg)))
            self.reg.append((name, v))
        return v

    def float(self, name):
        if self.window is not None:
            win, self.window = self.window, None
            try:
                return self.float_menu[self.choice(name, len(self.float_menu))]
            finally:
                self.window = win
        if self.replaying is not None:
            return float(self._next(name))
        from crosshair.libimpl.builtinslib import RealBasedSymbolicFloat
        from crosshair.tracers import NoTracing

        with NoTracing():
            # finite floats modelled as reals (CrossHair's IEEE proxy makes every comparison a slow FP query);
            # nan/inf are supplied through concrete menus where a harness wants them
            v = RealBasedSymbolicFloat(name + "_" + str(len(self.reg)), float)
            self.reg.append((name, v))
        return v

    def choice(self, name, n):
        """A solver-chosen index in range(n), returned as a *concrete* int (one fork per value)."""
        win, self.window = self.window, None  # the window restricts leaf values, never the index of a menu / a length
        try:
            x = self.int(name, 0, n - 1)
        finally:
            self.window = win
        for i in range(n - 1):
            if x == i:
                self.choices.append(i)
                return i
        self.choices.append(n - 1)
        return n - 1

    def flag(self, name):
        """A solver-chosen bool returned concrete."""
        r = True if self.bool(name) else False
        self.choices.append(int(r))
        return r

    def pick(self, name, seq):
        return seq[self.choice(name, len(seq))]

    def note(self, tag):
        """Count an event of this path (reported in the evidence; used as vacuity guard)."""
        self.path_tags.append(tag)


S = _Sym()


class untraced:
    """`with untraced():` runs a concrete part of a harness (building parsers, declaring links) outside CrossHair's tracer;
    a no-op when no tracer is active (warm-up calls, native replay)."""

    def __enter__(self):
        from crosshair.tracers import NoTracing, is_tracing

        self._ctx = NoTracing() if is_tracing() else None
        if self._ctx is not None:
            self._ctx.__enter__()
        return self

    def __exit__(self, *a):
        if self._ctx is not None:
            return self._ctx.__exit__(*a)
        return False


def replay_path(payload):
    """Generic native replay of one explored path: re-run the same harness with S answering
    from the recorded model values (creation order). payload: module, func, kwargs,
    native_kwargs (merged into kwargs, e.g. to switch stubs off), ordered."""
    import importlib

    mod = importlib.import_module("vf.props." + payload["module"])
    kw = dict(payload.get("kwargs", {}))
    kw.update(payload.get("native_kwargs", {}))
    if hasattr(mod, "setup_native"):
        mod.setup_native()
    harness = getattr(mod, payload["func"])(**kw)
    S.replaying = [list(x) for x in payload["ordered"]]
    try:
        return native(harness, _keep_replay=True)
    finally:
        S.replaying = None


def native(fn, *a, _keep_replay=False, **k):
    """Run a check function natively (replay): same verdict protocol as a harness path."""
    S.reset()
    try:
        res = fn(*a, **k)
    except Exception as ex:
        if not _touches_repo(ex):
            raise
        res = Fail("exception:" + type(ex).__name__, message=str(ex)[:300], trace=traceback.format_exc()[-1200:])
    return dict(reproduced=res is not True and res is not None, cls=getattr(res, "cls", None), detail=repr(res)[:1500])


def _quiet_format():
    """f-strings / format() of a symbolic number would realise it (the solver then
    enumerates values one per path). Messages are not the subject of the checks."""
    import crosshair.core as cc
    from crosshair.libimpl.builtinslib import SymbolicValue
    from crosshair.tracers import NoTracing

    if getattr(cc, "_vf_quiet", False):
        return
    orig = cc._PATCH_REGISTRATIONS[format]
    names = ("SymbolicInt", "RealBasedSymbolicFloat", "PreciseIeeeSymbolicFloat", "SymbolicBool", "SymbolicFloat")

    def quiet(o, spec=""):
        with NoTracing():
            sym = isinstance(o, SymbolicValue) and type(o).__name__ in names
        if sym:
            return "<sym>"
        return orig(o, spec)

    cc._PATCH_REGISTRATIONS[format] = quiet
    # CrossHair replaces every dict(...) call by its ShellMutableMap proxy; jsonargparse reads
    # `getattr(data, "__dict__", data)` (recreate_branches), which sees the proxy's internals.
    # The harnesses use concrete dict keys only, so real dicts (holding symbolic values) are exact.
    cc._PATCH_REGISTRATIONS.pop(dict, None)
    cc._vf_quiet = True


def _touches_repo(exc):
    """True if some frame of the exception's traceback runs code of the analysed jsonargparse tree."""
    pkg = os.path.join(REPO, "jsonargparse") + os.sep
    tb = exc.__traceback__
    while tb is not None:
        if tb.tb_frame.f_code.co_filename.startswith(pkg):
            return True
        tb = tb.tb_next
    return False


def _z3_to_py(val):
    import z3

    try:
        if z3.is_true(val):
            return True
        if z3.is_false(val):
            return False
        if z3.is_int_value(val):
            return val.as_long()
        if z3.is_rational_value(val):
            return val.numerator_as_long() / val.denominator_as_long()
        if z3.is_fp(val):
            if z3.is_fprm(val):
                return str(val)
            s = str(val)
            if "NaN" in s:
                return float("nan")
            if "oo" in s:
                return float("-inf") if s.startswith("-") else float("inf")
            return float(eval(s.replace("*(2**", "*(2.0**"))) if "*" in s else float(s)
        if z3.is_algebraic_value(val):
            return float(val.approx(20).as_fraction())
    except Exception:
        pass
    s = str(val)
    try:
        return int(s)
    except ValueError:
        return s


def _floats_as_reals():
    """Fix CrossHair's per-path choice of float model to the real-based one: the IEEE proxy turns
    every comparison into a slow FP query and doubles the path tree; rounding is not the subject
    of any check (stated in the evidence)."""
    from crosshair.libimpl.builtinslib import ModelingDirector, RealBasedSymbolicFloat
    from crosshair.statespace import context_statespace
    from crosshair.tracers import NoTracing

    with NoTracing():
        context_statespace().extra(ModelingDirector).global_representations[float] = RealBasedSymbolicFloat


def explore(harness, timeout=60.0, per_path_timeout=20.0, stop_on_first_fail=False, max_fail_samples=3):
    """Explore `harness` exhaustively or until `timeout` CPU seconds. Returns a result dict."""
    from crosshair.core_and_libs import NoTracing  # noqa: F401  (registers library models)
    import crosshair.core as cc
    from crosshair.core import explore_paths
    from crosshair.options import DEFAULT_OPTIONS, AnalysisOptionSet
    from crosshair.statespace import RootNode

    _quiet_format()
    opts = DEFAULT_OPTIONS.overlay(
        AnalysisOptionSet(
            per_condition_timeout=timeout,
            per_path_timeout=per_path_timeout,
            max_iterations=10**7,
            max_uninteresting_iterations=sys.maxsize,
        )
    )
    root = RootNode()
    root._random = random.Random(seed())
    st = dict(paths=0, checked=0, skipped=0, passed=0, failed=0, tags={}, fails={}, samples=[], errors=[])

    def values(space):
        from crosshair.tracers import NoTracing as NT

        out = {}
        with NT():
            try:
                if str(space.solver.check()) != "sat":
                    return {"<model>": "unavailable"}
                m = space.solver.model()
                for name, v in S.reg:
                    var = getattr(v, "var", None)
                    if var is None:
                        out[name] = repr(v)
                        continue
                    val = m.eval(var, model_completion=True)
                    val = _z3_to_py(val)
                    out.setdefault("__order__", []).append([name, val])
                    if name in out:
                        k = 2
                        while f"{name}#{k}" in out:
                            k += 1
                        out[f"{name}#{k}"] = val
                    else:
                        out[name] = val
            except Exception as ex:  # model reading must never break the run
                out["<model-error>"] = repr(ex)
        return out

    def run(_ba):
        S.reset()
        _floats_as_reals()
        return harness()

    def done(space, pre_args, args, ret, exc, stack):
        from crosshair.tracers import NoTracing as NT

        with NT():
            st["paths"] += 1
            for t in S.path_tags:
                st["tags"][t] = st["tags"].get(t, 0) + 1
            if exc is not None:
                tb = "".join(traceback.format_exception(type(exc), exc, exc.__traceback__)[-6:])
                if not _touches_repo(exc):
                    if len(st["errors"]) < 3:
                        st["errors"].append("harness error (no jsonargparse frame in the traceback): " + type(exc).__name__ + ": " + str(exc)[:300] + "\n" + tb[-1200:])
                    st["skipped"] += 1
                    return False
                ret = Fail("exception:" + type(exc).__name__, message=str(exc)[:300], trace=tb[-1500:])
            if ret is None:
                st["skipped"] += 1
                return False
            st["checked"] += 1
            if ret is True:
                st["passed"] += 1
                if len(st["samples"]) < 4:
                    st["samples"].append(dict(values=values(space), tags=list(S.path_tags)))
                return False
            if not isinstance(ret, Fail):
                ret = Fail("returned:" + repr(ret)[:80])
            st["failed"] += 1
            rec = st["fails"].setdefault(ret.cls, dict(count=0, samples=[]))
            rec["count"] += 1
            if len(rec["samples"]) < max_fail_samples:
                rec["samples"].append(dict(values=values(space), info=ret.info))
            return bool(stop_on_first_fail)

    t0 = time.process_time()
    w0 = time.time()
    try:
        explore_paths(run, inspect.signature(lambda: None), opts, root, done)
    except Exception as ex:  # NotDeterministic, CrossHairInternal...
        st["errors"].append(type(ex).__name__ + ": " + str(ex)[:500] + "\n" + traceback.format_exc()[-1500:])
    st["cpu_s"] = round(time.process_time() - t0, 2)
    st["wall_s"] = round(time.time() - w0, 2)
    try:
        st["exhausted"] = bool(root.child.is_exhausted())
        st["status"] = str(root.child.get_result().verification_status)
    except Exception as ex:
        st["exhausted"] = False
        st["status"] = "error:" + repr(ex)
    return st


# ---------------------------------------------------------------------------------------
# worker process


def _worker_main():
    use_repo()
    import importlib

    module, func, kw = sys.argv[1], sys.argv[2], json.loads(sys.argv[3])
    opts = json.loads(sys.argv[4])
    random.seed(seed())
    mod = importlib.import_module("vf.props." + module)
    if hasattr(mod, "setup_worker"):
        mod.setup_worker()
    factory = getattr(mod, func)
    harness = factory(**kw)  # a factory returns the zero-arg harness (does warm-up itself)
    res = explore(harness, **opts)
    res.update(module=module, harness=func, kwargs=kw)
    sys.stdout.write("\n@@RESULT@@" + json.dumps(res, default=repr) + "\n")
    sys.stdout.flush()
    os._exit(0)


def run_jobs(jobs, workers=16, wall_slack=60):
    """jobs: list of dict(module, func, kwargs, timeout, per_path_timeout?, stop_on_first_fail?).
    Returns the list of result dicts in job order."""

    def one(job):
        opts = dict(timeout=job.get("timeout", 60.0), per_path_timeout=job.get("per_path_timeout", 20.0))
        if job.get("stop_on_first_fail"):
            opts["stop_on_first_fail"] = True
        if job.get("max_fail_samples"):
            opts["max_fail_samples"] = job["max_fail_samples"]
        env = dict(os.environ)
        env["VERIF_REPO"] = REPO
        env["PYTHONPATH"] = VERIF
        env.setdefault("PYTHONHASHSEED", "0")
        cmd = [sys.executable, "-m", "vf.worker", job["module"], job["func"], json.dumps(job.get("kwargs", {})), json.dumps(opts)]
        t0 = time.time()
        try:
            p = subprocess.run(cmd, capture_output=True, text=True, env=env, cwd=VERIF, timeout=opts["timeout"] * 3 + wall_slack)
        except subprocess.TimeoutExpired:
            return dict(module=job["module"], harness=job["func"], kwargs=job.get("kwargs", {}), paths=0, checked=0, exhausted=False,
                        errors=["worker wall timeout"], fails={}, tags={}, samples=[], cpu_s=0, wall_s=time.time() - t0, status="timeout")
        lines = [l for l in p.stdout.splitlines() if l.startswith("@@RESULT@@")]
        if not lines:
            return dict(module=job["module"], harness=job["func"], kwargs=job.get("kwargs", {}), paths=0, checked=0, exhausted=False,
                        errors=["worker crashed rc=%s: %s" % (p.returncode, (p.stderr or p.stdout)[-3000:])], fails={}, tags={}, samples=[],
                        cpu_s=0, wall_s=time.time() - t0, status="crash")
        return json.loads(lines[-1][len("@@RESULT@@"):])

    with ThreadPoolExecutor(max_workers=workers) as ex:
        return list(ex.map(one, jobs))


def absorb(report, results, require_tags=(), require_exhausted=True):
    """Fold worker results into a Report. Returns dict failure-class -> list of samples."""
    fails = {}
    for r in results:
        label = r["harness"] + ("" if not r.get("kwargs") else json.dumps(r["kwargs"], sort_keys=True))
        report.harnesses.append(
            dict(harness=label, paths=r.get("paths", 0), checked=r.get("checked", 0), skipped=r.get("skipped", 0),
                 passed=r.get("passed", 0), failed=r.get("failed", 0), exhausted=r.get("exhausted", False),
                 status=r.get("status"), cpu_s=r.get("cpu_s", 0), wall_s=r.get("wall_s", 0), tags=r.get("tags", {}),
                 twin_reaches_assertion=r.get("checked", 0) >= 1)
        )
        report.evaluations += r.get("paths", 0)
        report.nontrivial += r.get("checked", 0)
        for s in r.get("samples", [])[:2]:
            report.samples.append(dict(harness=label, **s))
        for e in r.get("errors", []):
            report.inconc(f"{label}: {e[:600]}")
        if r.get("checked", 0) < 1 and not r.get("errors"):
            report.inconc(f"{label}: vacuous (no path reached the assertion; the reachability twin would pass)")
        if not r.get("exhausted") and not r.get("errors"):
            if require_exhausted and getattr(report, "tier", "quick") == "quick":
                report.inconc(f"{label}: path tree not exhausted within the CPU budget ({r.get('paths')} paths)")
            else:
                # thorough tier: the deep harnesses are sized for an idle machine; what was explored held, the rest is reported as not explored
                report.notes.append(f"{label}: path tree NOT exhausted within the CPU budget ({r.get('paths')} paths explored, all satisfied the assertion unless listed)")
        for t in require_tags:
            pass
        for cls, rec in r.get("fails", {}).items():
            for s in rec["samples"]:
                fails.setdefault(cls, []).append(dict(harness=r["harness"], kwargs=r.get("kwargs", {}), count=rec["count"], **s))
    tagsum = {}
    for r in results:
        for t, n in r.get("tags", {}).items():
            tagsum[t] = tagsum.get(t, 0) + n
    for t in require_tags:
        if tagsum.get(t, 0) < 1:
            report.inconc(f"vacuity guard: no path was tagged {t!r}")
    report.extra.setdefault("tags", {}).update(tagsum)
    return fails
