"""Parser shapes shared by the API-level checks (C01, C05, C08, C10).

A shape is a concrete parser built with the real public API plus a generator of
configuration objects whose leaves are symbolic (created through ch.S). Shapes are
configurations enumerated by the harness generator - the solver decides the leaf values,
the value kinds, the list lengths and the coincidences with defaults.
"""
from .ch import S

STR_MENU = ["x", "", "1", "true", "null", "1e3", " a ", "a: b", "[1]", "-", "~"]


def opt(name, mk):
    return mk() if S.flag(name + "?") else None


def ints(name, maxlen=2):
    n = S.choice(name + ".len", maxlen + 1)
    return [S.int(f"{name}[{i}]") for i in range(n)]


def pstr(name, menu=STR_MENU):
    return S.pick(name, menu)


class Shape:
    def __init__(self, name, build, sym, tier="quick", note=""):
        self.name, self.build, self.sym, self.tier, self.note = name, build, sym, tier, note


def _ap(**kw):
    from jsonargparse import ArgumentParser

    kw.setdefault("prog", "app")
    return ArgumentParser(exit_on_error=False, **kw)


# ---------------------------------------------------------------------------------------


def b_scalars():
    from typing import Optional

    p = _ap()
    p.add_argument("--a", type=int, default=1)
    p.add_argument("--b", type=float, default=0.5)
    p.add_argument("--c", type=bool, default=False)
    p.add_argument("--d", type=Optional[int], default=None)
    p.add_argument("--e", type=str, default="x")
    p.add_argument("--od", type=Optional[int], default=5)  # None is a value here although the default is not None
    return p


def s_scalars():
    return dict(a=S.int("a"), b=(S.float("b") if S.flag("b.isfloat") else S.int("b")), c=S.bool("c"), d=opt("d", lambda: S.int("d")), e=pstr("e"),
                od=opt("od", lambda: S.int("od")))


def b_opt_small():
    from typing import List, Optional

    p = _ap()
    p.add_argument("--a", type=int, default=1)
    p.add_argument("--d", type=Optional[int], default=None)
    p.add_argument("--od", type=Optional[int], default=5)
    p.add_argument("--tags", type=List[str], default=["base"])
    return p


def s_opt_small():
    return dict(a=S.int("a"), d=opt("d", lambda: S.int("d")), od=opt("od", lambda: S.int("od")))


def b_unions():
    from typing import Optional, Union

    p = _ap()
    p.add_argument("--u", type=Union[int, str], default="u")
    p.add_argument("--ob", type=Optional[bool], default=None)
    p.add_argument("--uf", type=Union[float, bool, None], default=1.5)
    p.add_argument("--ul", type=Union[int, list[int]], default=0)
    return p


def s_unions():
    k = S.choice("uf.kind", 3)
    return dict(
        u=(S.int("u") if S.flag("u.isint") else pstr("u")),
        ob=opt("ob", lambda: S.bool("ob")),
        uf=(None if k == 0 else S.bool("uf") if k == 1 else S.float("uf")),
        ul=(S.int("ul") if S.flag("ul.isint") else ints("ul")),
    )


def b_lists():
    from typing import List, Optional

    p = _ap()
    p.add_argument("--l", type=List[int], default=[1, 2])
    p.add_argument("--ll", type=List[List[int]], default=[])
    p.add_argument("--lf", type=List[float], default=[0.5])
    p.add_argument("--lo", type=Optional[List[Optional[int]]], default=None)
    return p


def s_lists():
    n = S.choice("ll.len", 3)
    return dict(
        l=ints("l"),
        ll=[ints(f"ll[{i}]", 1) for i in range(n)],
        lf=ints("lf", 1),
        lo=opt("lo", lambda: [opt("lo[0]", lambda: S.int("lo[0]"))]),
    )


def b_dicts():
    from typing import Dict, List

    p = _ap()
    p.add_argument("--d", type=Dict[str, int], default={"k": 1})
    p.add_argument("--di", type=Dict[int, List[int]], default={})
    p.add_argument("--dd", type=Dict[str, Dict[str, float]], default={})
    from typing import Optional, OrderedDict

    from .fixtures import Color

    p.add_argument("--od", type=Optional[OrderedDict[str, Color]], default=None)  # an ordered mapping whose values are converted (names <-> members)
    return p


def s_dicts():
    d = {}
    if S.flag("d.k?"):
        d["k"] = S.int("d.k")
    if S.flag("d.j?"):
        d["j"] = S.int("d.j")
    di = {}
    if S.flag("di.1?"):
        di[1] = ints("di.1", 1)
    dd = {}
    if S.flag("dd.a?"):
        dd["a"] = {"b": S.int("dd.a.b")}
    out = dict(d=d, di=di, dd=dd)
    if S.flag("od?"):
        out["od"] = {"a": S.pick("od.a", ["RED", "GREEN"])}
    return out


def b_tuples():
    from typing import List, Tuple

    p = _ap()
    p.add_argument("--t", type=Tuple[int, float], default=(1, 0.5))
    p.add_argument("--tv", type=Tuple[int, ...], default=(1,))
    p.add_argument("--tn", type=Tuple[int, List[Tuple[int, int]]], default=(0, []))
    return p


def s_tuples():
    n = S.choice("tn.len", 2)
    as_tuple = S.flag("as_tuple")
    mk = tuple if as_tuple else list
    return dict(
        t=mk([S.int("t0"), S.int("t1")]),
        tv=mk(ints("tv")),
        tn=mk([S.int("tn0"), [mk([S.int(f"tn1[{i}]a"), S.int(f"tn1[{i}]b")]) for i in range(n)]]),
    )


def b_sle():
    from typing import Literal, Optional, Set

    from .fixtures import Color

    p = _ap()
    p.add_argument("--s", type=Set[int], default={1})
    p.add_argument("--lit", type=Literal[1, 2, "a"], default=1)
    p.add_argument("--en", type=Color, default=Color.RED)
    p.add_argument("--oe", type=Optional[Color], default=None)
    return p


def s_sle():
    from .fixtures import Color

    s = [x for x in (1, 2, 3) if S.flag(f"s.has{x}")]
    return dict(
        s=(set(s) if S.flag("s.as_set") else s),
        lit=S.pick("lit", [1, 2, "a"]),
        en=S.pick("en", ["RED", "GREEN", Color.BLUE]),
        oe=S.pick("oe", [None, "GREEN", Color.RED]),
    )


def b_set_small():
    from typing import List, Set

    from .fixtures import Color

    p = _ap()
    p.add_argument("--s", type=Set[int], default={1})
    p.add_argument("--en", type=Color, default=Color.RED)
    p.add_argument("--ls", type=List[Set[int]], default=[])
    return p


def s_set_small():
    from .fixtures import Color

    s = [x for x in (1, 2) if S.flag(f"s.has{x}")]
    return dict(s=(set(s) if S.flag("s.as_set") else s), en=S.pick("en", ["GREEN", Color.BLUE]), ls=([[S.int("ls00", 0, 2)]] if S.flag("ls?") else []))


def b_restricted():
    from typing import List, Optional

    from jsonargparse.typing import ClosedUnitInterval, NonNegativeInt, PositiveInt

    p = _ap()
    p.add_argument("--p", type=PositiveInt, default=1)
    p.add_argument("--nn", type=Optional[NonNegativeInt], default=None)
    p.add_argument("--lp", type=List[PositiveInt], default=[])
    p.add_argument("--cu", type=ClosedUnitInterval, default=0.5)
    return p


def s_restricted():
    return dict(
        p=S.int("p", 1, 4),
        nn=opt("nn", lambda: S.int("nn", 0, 3)),
        lp=[S.int("lp0", 1, 3)] if S.flag("lp?") else [],
        cu=S.pick("cu", [0, 1, 0.25, 1.0]),
    )


def b_registered():
    from datetime import timedelta
    from typing import Optional

    p = _ap()
    p.add_argument("--r", type=range, default=range(3))
    p.add_argument("--td", type=timedelta, default=timedelta(seconds=1))
    p.add_argument("--cx", type=Optional[complex], default=None)
    return p


import datetime as _dt  # noqa: E402

_R_MENU = [range(2), range(1, 5), range(5, 1, -2), range(0), "range(1, 3)"]
_TD_MENU = [_dt.timedelta(days=1, seconds=2), _dt.timedelta(microseconds=5), _dt.timedelta(days=-1), "0:00:07", _dt.timedelta(days=-2, seconds=5, microseconds=7)]
_CX_MENU = [None, complex(1, 2), "(3+0j)", complex(0, -1)]


def s_registered():
    return dict(r=S.pick("r", _R_MENU), td=S.pick("td", _TD_MENU), cx=S.pick("cx", _CX_MENU))


# strings whose *characters* stress the emitters and scanners (the look-alike spellings are the text layer's business)
_TEXT_MENU = ["plain", "caf\u00e9", "\U0001f600 smile", "tab\there", "quote\"s' mix", "back\\slash", " lead", "trail ", "a: b", "# not a comment", "a #b",
              "- item", "{x}", "%TAG", "\u2028sep", "multi word text", "@at", "`tick", "!bang", "&anchor", "*alias", "|", ">", "?", "''", '""', "nel\x85here", "del\x7fhere", "\u2029para", "bell\x07",
              # spellings that some YAML/JSON reader takes for another type (the text layer decides these for all strings; here they run through every route)
              "-1e3", "+2E5", "-1.5e3", "1e3", ".5", "-.inf", "0x1F", "0o17", "1_000", "yes", "No", "~", "null", "2001-01-01", "1:30", "0b11", "+1", "1.", "=", "<<"]


def b_strings():
    from typing import Dict, List, Optional

    p = _ap()
    p.add_argument("--s", type=str, default="x")
    p.add_argument("--os", type=Optional[str], default=None)
    p.add_argument("--ls", type=List[str], default=[])
    p.add_argument("--ds", type=Dict[str, str], default={})
    return p


def s_strings():
    where = S.choice("where", 5)
    t = S.pick("text", _TEXT_MENU)
    obj = dict(s="x", os=None, ls=[], ds={})
    if where == 0:
        obj["s"] = t
    elif where == 1:
        obj["os"] = t
    elif where == 2:
        obj["ls"] = [t, "y"]
    elif where == 3:
        obj["ds"] = {"k": t}
    else:
        obj["ds"] = {t: "v"}
    return obj


def b_union_registered():
    import datetime
    from typing import Optional, Union

    from .fixtures import Color

    p = _ap()
    p.add_argument("--u", type=Optional[Union[datetime.timedelta, Color]], default=None)  # a registered type written before an Enum
    p.add_argument("--v", type=Optional[Union[Color, datetime.timedelta]], default=None)
    return p


_UR_MENU = None


def s_union_registered():
    global _UR_MENU
    if _UR_MENU is None:
        from .fixtures import Color

        _UR_MENU = [None, Color.GREEN, _dt.timedelta(seconds=5), "RED", "0:00:07"]
    return dict(u=S.pick("u", _UR_MENU), v=S.pick("v", _UR_MENU))


def b_subcommands_empty():
    p = _ap()
    p.add_argument("--top", type=int, default=0)
    a = _ap()
    b = _ap()
    b.add_argument("--x", type=int, default=1)
    sc = p.add_subcommands()
    sc.add_subcommand("a", a)  # a subcommand whose parser has no arguments: its section is an empty namespace
    sc.add_subcommand("b", b)
    return p


def s_subcommands_empty():
    if S.flag("choose_a"):
        return dict(top=S.int("top", 0, 1), subcommand="a")
    return dict(top=S.int("top", 0, 1), subcommand="b", b=dict(x=S.int("b.x", 0, 1)))


def b_dataclass():
    from .fixtures import Outer

    p = _ap()
    p.add_argument("--o", type=Outer, default=Outer())
    return p


def s_dataclass():
    o = {}
    if S.flag("o.a?"):
        o["a"] = S.int("o.a")
    if S.flag("o.inner?"):
        o["inner"] = dict(k=S.int("o.inner.k"), r=opt("o.inner.r", lambda: S.float("o.inner.r")))
    if S.flag("o.lst?"):
        o["lst"] = ints("o.lst")
    return dict(o=o)


def b_dataclass_opt():
    from typing import Optional

    from .fixtures import Req

    p = _ap()
    p.add_argument("--q", type=Optional[Req], default=None)
    p.add_argument("--n", type=int, default=0)
    return p


def s_dataclass_opt():
    def mk():
        d = dict(a=S.int("q.a"), b=opt("q.b", lambda: S.int("q.b")))
        if S.flag("q.c given"):
            d["c"] = opt("q.c", lambda: S.int("q.c"))
        return d

    return dict(q=opt("q", mk), n=S.int("n"))


def _spec(name, allow_none=False):
    k = S.choice(name + ".class", 4 if allow_none else 3)
    if k == 0:
        d = dict(class_path="vf.fixtures.Base")
        if S.flag(name + ".w?"):
            d["init_args"] = dict(w=S.int(name + ".w"))
        return d
    if k == 1:
        ia = {}
        if S.flag(name + ".w?"):
            ia["w"] = S.int(name + ".w")
        if S.flag(name + ".z?"):
            ia["z"] = S.int(name + ".z")
        if S.flag(name + ".k=None"):
            ia["k"] = None
        return dict(class_path="vf.fixtures.Sub1", init_args=ia)
    if k == 2:
        ia = dict(w=S.int(name + ".w"))
        if S.flag(name + ".items?"):
            ia["items"] = ints(name + ".items", 1)
        if S.flag(name + ".flag?"):
            ia["flag"] = S.bool(name + ".flag")
        return dict(class_path="Sub2", init_args=ia)
    return None


def b_subclass():
    from typing import Optional

    from .fixtures import Base

    p = _ap()
    p.add_argument("--x", type=Base, default=None)
    return p


def s_subclass():
    return dict(x=_spec("x"))


def b_subclass_opt():
    from typing import Optional

    from .fixtures import Base

    p = _ap()
    p.add_argument("--y", type=Optional[Base], default=None)
    p.add_argument("--n", type=int, default=0)
    return p


def s_subclass_opt():
    return dict(y=_spec("y", allow_none=True), n=S.int("n"))


def b_subclass_default():
    from jsonargparse import lazy_instance

    from .fixtures import Base, Sub1

    p = _ap()
    p.add_argument("--x", type=Base, default=lazy_instance(Sub1, w=7))
    p.add_argument("--n", type=int, default=0)
    return p


def s_subclass_default():
    d = dict(n=S.int("n"))
    if S.flag("x?"):
        d["x"] = _spec("x")
    return d


def b_groups():
    from typing import List

    p = _ap()
    p.add_argument("--top", type=int, default=0)
    p.add_argument("--g.a", type=int, default=1)
    p.add_argument("--g.h.b", type=List[int], default=[])
    p.add_argument("--g.h.c", type=bool, default=True)
    return p


def s_groups():
    dotted = S.flag("dotted")
    if dotted:
        return {"top": S.int("top"), "g.a": S.int("g.a"), "g.h.b": ints("g.h.b"), "g.h.c": S.bool("g.h.c")}
    return dict(top=S.int("top"), g=dict(a=S.int("g.a"), h=dict(b=ints("g.h.b"), c=S.bool("g.h.c"))))


def b_subcommands():
    from typing import List, Optional

    p = _ap()
    p.add_argument("--top", type=int, default=0)
    fit = _ap()
    fit.add_argument("--a", type=int, default=1)
    fit.add_argument("--o", type=Optional[float], default=None)
    test = _ap()
    test.add_argument("--b", type=List[int], default=[])
    sc = p.add_subcommands()
    sc.add_subcommand("fit", fit)
    sc.add_subcommand("test", test)
    return p


def s_subcommands():
    if S.flag("fit"):
        return dict(top=S.int("top"), subcommand="fit", fit=dict(a=S.int("fit.a"), o=opt("fit.o", lambda: S.int("fit.o"))))
    return dict(top=S.int("top"), subcommand="test", test=dict(b=ints("test.b")))


def b_holder():
    from .fixtures import Holder

    p = _ap()
    p.add_argument("--h", type=Holder, default=None)
    return p


def _small_spec(name):
    if S.flag(name + ".sub1"):
        return dict(class_path="vf.fixtures.Sub1", init_args=dict(z=S.int(name + ".z")))
    return dict(class_path="vf.fixtures.Base", init_args=dict(w=S.int(name + ".w")))


def s_holder():
    ia = dict(inner=_small_spec("h.inner"), n=S.int("h.n"))
    if S.flag("h.many?"):
        ia["many"] = [_small_spec("h.many0")]
    return dict(h=dict(class_path="vf.fixtures.Holder", init_args=ia))


def b_class_containers():
    from typing import Dict, List, Union

    from .fixtures import Base

    p = _ap()
    p.add_argument("--lb", type=List[Base], default=[])
    p.add_argument("--db", type=Dict[str, Base], default={})
    p.add_argument("--ub", type=Union[Base, int], default=0)
    return p


def s_class_containers():
    return dict(
        lb=([_small_spec("lb0")] if S.flag("lb?") else []),
        db=({"k": _small_spec("db.k")} if S.flag("db.k?") else {}),
        ub=(S.int("ub") if S.flag("ub.isint") else _small_spec("ub")),
    )


def b_class_list_small():
    from typing import List

    from .fixtures import Base

    p = _ap()
    p.add_argument("--lb", type=List[Base], default=[])
    return p


def s_class_list_small():
    if not S.flag("lb?"):
        return dict(lb=[])
    if S.flag("lb0.sub1"):
        return dict(lb=[dict(class_path="vf.fixtures.Sub1", init_args=dict(z=S.int("lb0.z")))])
    return dict(lb=[dict(class_path="vf.fixtures.Base", init_args=dict(w=S.int("lb0.w")))])


def b_class_kw():
    from typing import Dict, List

    from .fixtures import Base

    p = _ap()
    p.add_argument("--one", type=Base, default=None)
    p.add_argument("--lst", type=List[Base], default=[])
    p.add_argument("--dct", type=Dict[str, Base], default={})
    return p


def s_class_kw():
    """A spec of a **kwargs class, with or without a dict_kwargs section, as a plain value and as an element of a list / a dict."""
    spec = dict(class_path="vf.fixtures.Kw", init_args=dict(w=S.int("w")))
    if S.flag("dict_kwargs?"):
        spec["dict_kwargs"] = dict(extra=S.int("extra"))
    where = S.choice("where", 3)
    other = dict(class_path="vf.fixtures.Base")
    if where == 0:
        return dict(one=spec)
    if where == 1:
        return dict(lst=[other, spec])
    return dict(dct={"k": spec, "j": other})


def b_wrong_kind():
    from typing import List

    p = _ap()
    p.add_argument("--a", type=int, default=1)
    p.add_argument("--f", type=float, default=1.0)
    p.add_argument("--l", type=List[int], default=[1, 0])
    return p


def s_wrong_kind():
    """Values of the wrong kind that compare equal to the default (True == 1 == 1.0): every channel has to take the same decision."""
    return dict(a=S.pick("a", [1, True, 1.0, 2, False]), f=S.pick("f", [1.0, True, 1, 2.5]), l=S.pick("l", [[1, 0], [True, False], [1.0, 0], [2]]))


def b_class_group():
    from .fixtures import Sub2

    p = _ap()
    p.add_class_arguments(Sub2, "m")
    p.add_argument("--k", type=int, default=0)
    return p


def s_class_group():
    m = {}
    if S.flag("m.w?"):
        m["w"] = S.int("m.w")
    if S.flag("m.items?"):
        m["items"] = opt("m.items", lambda: ints("m.items"))
    if S.flag("m.flag?"):
        m["flag"] = S.bool("m.flag")
    return dict(m=m, k=S.int("k"))


SHAPES = [
    Shape("scalars", b_scalars, s_scalars),
    Shape("opt_small", b_opt_small, s_opt_small, tier="thorough"),
    Shape("unions", b_unions, s_unions),
    Shape("lists", b_lists, s_lists),
    Shape("dicts", b_dicts, s_dicts),
    Shape("tuples", b_tuples, s_tuples),
    Shape("set_literal_enum", b_sle, s_sle),
    Shape("set_small", b_set_small, s_set_small),
    Shape("restricted", b_restricted, s_restricted),
    Shape("registered", b_registered, s_registered, note="native"),
    Shape("union_registered", b_union_registered, s_union_registered, note="native"),
    Shape("strings", b_strings, s_strings, note="native"),
    Shape("subcommands_empty", b_subcommands_empty, s_subcommands_empty, note="native"),
    Shape("dataclass", b_dataclass, s_dataclass),
    Shape("dataclass_opt", b_dataclass_opt, s_dataclass_opt),
    Shape("subclass", b_subclass, s_subclass),
    Shape("subclass_opt", b_subclass_opt, s_subclass_opt),
    Shape("groups", b_groups, s_groups),
    Shape("subcommands", b_subcommands, s_subcommands),
    Shape("subclass_default", b_subclass_default, s_subclass_default, tier="quick"),
    Shape("class_group", b_class_group, s_class_group, tier="quick"),
    Shape("class_kw", b_class_kw, s_class_kw, tier="quick"),
    Shape("wrong_kind", b_wrong_kind, s_wrong_kind, tier="quick"),
    Shape("class_list_small", b_class_list_small, s_class_list_small, tier="thorough"),
    Shape("holder", b_holder, s_holder, tier="thorough"),
    Shape("class_containers", b_class_containers, s_class_containers, tier="thorough"),
]
BY_NAME = {s.name: s for s in SHAPES}
# heavy shapes are split into shards (a partition of the paths by their concrete choices) to use all cores
SHARDS = {"unions": 4, "subclass_default": 3, "set_literal_enum": 3, "subclass_opt": 2, "restricted": 2, "scalars": 2, "lists": 2, "subclass": 2,
          "holder": 2, "class_containers": 3}


def shard_jobs(shape):
    n = SHARDS.get(shape, 1)
    return [dict(shard=i, nshards=n) for i in range(n)] if n > 1 else [dict()]


def shapes_for(tier):
    return [s for s in SHAPES if tier == "thorough" or s.tier == "quick"]


# ---------------------------------------------------------------------------------------
# deep comparison, type for type


def same(x, y, path=""):
    """None if x and y are equal value for value and type for type, else a description."""
    from jsonargparse import Namespace

    if isinstance(x, Namespace) or isinstance(y, Namespace):
        if not (isinstance(x, Namespace) and isinstance(y, Namespace)):
            return f"{path}: {type(x).__name__} vs {type(y).__name__}"
        kx, ky = list(vars(x).keys()), list(vars(y).keys())
        if sorted(kx) != sorted(ky):
            return f"{path}: keys {kx} vs {ky}"
        for k in kx:
            r = same(vars(x)[k], vars(y)[k], f"{path}.{k}")
            if r:
                return r
        return None
    if type(x) is not type(y):
        return f"{path}: type {type(x).__name__} vs {type(y).__name__}"
    if isinstance(x, dict):
        if list(x.keys()) != list(y.keys()) and sorted(map(repr, x.keys())) != sorted(map(repr, y.keys())):
            return f"{path}: dict keys {list(x.keys())} vs {list(y.keys())}"
        for k in x:
            if k not in y:
                return f"{path}: key {k!r} missing"
            r = same(x[k], y[k], f"{path}[{k!r}]")
            if r:
                return r
        return None
    if isinstance(x, (list, tuple)):
        if len(x) != len(y):
            return f"{path}: length {len(x)} vs {len(y)}"
        for i, (a, b) in enumerate(zip(x, y)):
            r = same(a, b, f"{path}[{i}]")
            if r:
                return r
        return None
    if isinstance(x, float):
        if x == y or (x != x and y != y):
            return None
        return f"{path}: float values differ"
    if x == y:
        return None
    return f"{path}: values differ ({type(x).__name__})"
