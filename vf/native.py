"""python -m vf.native <module> <func>  — run a replay function natively (no CrossHair,
no stubs) on the JSON payload read from stdin; print its JSON result."""
import importlib
import json
import sys

from .common import use_repo


def main():
    use_repo()
    mod = importlib.import_module("vf." + sys.argv[1])
    payload = json.loads(sys.stdin.read())
    res = getattr(mod, sys.argv[2])(payload)
    sys.stdout.write("\n@@RESULT@@" + json.dumps(res, default=repr) + "\n")


if __name__ == "__main__":
    main()
