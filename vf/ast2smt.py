"""E-AST: symbolic execution of a small hand-written string procedure from its *source AST* into
z3 sequence constraints (for code CrossHair cannot cover: symbolic strings are far too slow there).

The function's source is read with inspect.getsource from the running jsonargparse on every
run. Supported subset (anything else raises Unsupported -> the check is inconclusive):

  statements   Assign to a name, If/elif/else, Return, Try/except (no finally/else), Pass
  str exprs    parameter / local names, str constants, .strip(), .replace(const, const, n<=3),
               x[k:] with constant k
  bool exprs   ==, !=, .isdigit(), .startswith(const), const in x, and / or / not
  calls that may raise   int(x), float(x)  -> ValueError iff x is outside the (validated)
               regular language that the builtin accepts

Result: a list of Outcome(path condition, kind, value) where kind is one of
  return:True | return:False | return:None | return:int | return:float | return:name:<id> | raise:<ExceptionName>
"""
import ast
import inspect
import re
import textwrap
import unicodedata

import z3

from . import rx
from .common import Inconclusive


class Unsupported(Inconclusive):
    pass


_cls_cache = {}
PREDICATES = {
    "space": lambda c: c.isspace(),
    "intspace": lambda c: c.isspace() and not ("\x1c" <= c <= "\x1f"),  # what int()/float() strip (C isspace for ASCII)
    "isdigit": lambda c: c.isdigit(),
    "decimal": lambda c: unicodedata.category(c) == "Nd",
}
_reps = []


def representatives():
    """One non-ASCII character per combination of the predicates above that occurs in Unicode (first code point of
    each combination). The procedures encoded here treat characters only through these predicates and through
    comparisons with ASCII literals, so every string has an image over ASCII + representatives with the same
    behaviour; queries are restricted to that alphabet (stated as a bound in the evidence)."""
    if not _reps:
        seen = {}
        for cp in range(128, rx.MAXCHAR + 1):
            c = chr(cp)
            sig = tuple(bool(p(c)) for p in PREDICATES.values())
            if sig not in seen:
                seen[sig] = c
        _reps.extend(seen.values())
    return list(_reps)


def alphabet():
    return rx._union([rx._range(0, 127)] + [_lit(c) for c in representatives()])


def char_class(name):
    """z3 regex (single char) of a Python character predicate over the alphabet ASCII + representatives,
    computed from Python itself."""
    if name in _cls_cache:
        return _cls_cache[name]
    pred = PREDICATES[name]
    parts = [rx._range(a, b) for a, b in _ascii_ranges(pred)] + [_lit(c) for c in representatives() if pred(c)]
    r = rx._union(parts)
    _cls_cache[name] = r
    return r


def _ascii_ranges(pred):
    out, start = [], None
    for cp in range(129):
        ok = cp < 128 and pred(chr(cp))
        if ok and start is None:
            start = cp
        elif not ok and start is not None:
            out.append((start, cp - 1))
            start = None
    return out


def _lit(s):
    return z3.Re(z3.StringVal(s))


def int_ok():
    """Strings on which int(x) succeeds (x a str, base 10), up to the 4300-digit limit."""
    ws = z3.Star(char_class("intspace"))
    d = char_class("decimal")
    digits = z3.Concat(d, z3.Star(z3.Concat(z3.Option(_lit("_")), d)))
    return z3.Concat(ws, z3.Option(z3.Union(_lit("+"), _lit("-"))), digits, ws)


def float_ok():
    ws = z3.Star(char_class("intspace"))
    d = char_class("decimal")
    digits = z3.Concat(d, z3.Star(z3.Concat(z3.Option(_lit("_")), d)))
    sign = z3.Option(z3.Union(_lit("+"), _lit("-")))
    mant = z3.Union(z3.Concat(digits, z3.Option(z3.Concat(_lit("."), z3.Option(digits)))), z3.Concat(_lit("."), digits))
    exp = z3.Option(z3.Concat(z3.Union(_lit("e"), _lit("E")), sign, digits))

    def ci(word):
        return z3.Concat(*[z3.Union(_lit(c.lower()), _lit(c.upper())) for c in word])

    special = z3.Union(ci("inf"), ci("infinity"), ci("nan"))
    return z3.Concat(ws, sign, z3.Union(z3.Concat(mant, exp), special), ws)


def validate_builtin_models(n=60):
    """int_ok / float_ok against the real builtins on solver-generated members and non-members."""
    bad, checked = [], 0
    for name, lang, fn in (("int", int_ok(), int), ("float", float_ok(), float)):
        sigma = z3.Star(alphabet())
        words = set(rx.members(z3.Intersect(lang, sigma), n, maxlen=8)) | set(rx.members(z3.Intersect(z3.Complement(lang), sigma), n, maxlen=8)) | {
            "", " 1 ", "+1", "-1", "1_0", "_1", "1_", "1__0", "²", "١٢", "1.5", "1e5", ".5", "5.", "1e", "e5", "inf", "-Infinity", "nan", "NaN", "1.e5", "1._5", "٣.٥", "0x1", "1 2", "--1", "+-1", "１２"}
        for w in words:
            if not rx.in_lang(w, z3.Star(alphabet())):
                w = map_to_alphabet(w)
            try:
                fn(w)
                ok = True
            except ValueError:
                ok = False
            checked += 1
            if ok != rx.in_lang(w, lang):
                bad.append((name, w, ok))
    return checked, bad


def map_to_alphabet(w):
    """Image of a string over ASCII + representatives (same predicate signature per character)."""
    reps = {tuple(bool(p(c)) for p in PREDICATES.values()): c for c in representatives()}
    out = []
    for c in w:
        if ord(c) < 128:
            out.append(c)
        else:
            out.append(reps[tuple(bool(p(c)) for p in PREDICATES.values())])
    return "".join(out)


class Outcome:
    def __init__(self, pc, kind, value=None):
        self.pc, self.kind, self.value = pc, kind, value

    def cond(self):
        return z3.And(*self.pc) if self.pc else z3.BoolVal(True)


class _Raise(Exception):
    pass


class SymExec:
    """Executes one function symbolically. self.param is the z3 String of the (single) parameter."""

    def __init__(self, fn, param_name=None):
        src = textwrap.dedent(inspect.getsource(fn))
        tree = ast.parse(src)
        self.fdef = tree.body[0]
        if not isinstance(self.fdef, ast.FunctionDef):
            raise Unsupported("not a function definition")
        args = self.fdef.args.args
        if len(args) != 1:
            raise Unsupported("exactly one parameter expected")
        self.param_name = args[0].arg
        self.param = z3.String("arg_" + self.param_name)
        self.domain = z3.InRe(self.param, z3.Star(alphabet()))
        self.fresh = 0
        self.param_is_stripped = False
        self.outcomes = []
        self.source = src

    def new_str(self, hint):
        self.fresh += 1
        return z3.String(f"{hint}_{self.fresh}")

    # ---- expressions: return list of (extra pc, value, raised) alternatives
    def ev_str(self, node, env, pc):
        """-> list of (pc, z3 string term)"""
        if isinstance(node, ast.Name):
            if node.id not in env:
                raise Unsupported(f"unknown name {node.id}")
            v = env[node.id]
            if not z3.is_string(v):
                raise Unsupported(f"name {node.id} is not a string")
            return [(pc, v)]
        if isinstance(node, ast.Constant) and isinstance(node.value, str):
            return [(pc, z3.StringVal(node.value))]
        if isinstance(node, ast.Call) and isinstance(node.func, ast.Attribute):
            meth = node.func.attr
            out = []
            for pc1, base in self.ev_str(node.func.value, env, pc):
                if meth == "strip" and not node.args:
                    v, pre, post = self.new_str("strip"), self.new_str("pre"), self.new_str("post")
                    ws = char_class("space")
                    first = z3.SubString(v, 0, 1)
                    last = z3.SubString(v, z3.Length(v) - 1, 1)
                    cons = [base == z3.Concat(pre, v, post), z3.InRe(pre, z3.Star(ws)), z3.InRe(post, z3.Star(ws)),
                            z3.Or(v == z3.StringVal(""), z3.And(z3.Not(z3.InRe(first, ws)), z3.Not(z3.InRe(last, ws))))]
                    out.append((pc1 + cons, v))
                elif meth == "replace" and len(node.args) in (2, 3) and all(isinstance(a, ast.Constant) for a in node.args):
                    old, new = node.args[0].value, node.args[1].value
                    count = node.args[2].value if len(node.args) == 3 else None
                    if count is None or not isinstance(count, int) or not (1 <= count <= 3) or not old:
                        raise Unsupported("replace needs a constant count in 1..3 and a non-empty pattern")
                    if old in new:
                        raise Unsupported("replacement contains the pattern")
                    v = base
                    for _ in range(count):
                        v = z3.Replace(v, z3.StringVal(old), z3.StringVal(new))
                    out.append((pc1, v))
                else:
                    raise Unsupported(f"string method {meth}")
            return out
        if isinstance(node, ast.Subscript) and isinstance(node.slice, ast.Slice):
            sl = node.slice
            if sl.upper is not None or sl.step is not None or not isinstance(sl.lower, ast.Constant) or not isinstance(sl.lower.value, int) or sl.lower.value < 0:
                raise Unsupported("only x[k:] slices")
            k = sl.lower.value
            return [(pc1, z3.SubString(b, k, z3.Length(b))) for pc1, b in self.ev_str(node.value, env, pc)]
        raise Unsupported(f"string expression {ast.dump(node)[:80]}")

    def ev_bool(self, node, env, pc):
        """-> list of (pc, z3 bool)"""
        if isinstance(node, ast.BoolOp):
            # short-circuit is irrelevant here: operands have no side effects and cannot raise
            parts = [[(pc, None)]]
            acc = [(pc, [])]
            for v in node.values:
                nxt = []
                for pc1, terms in acc:
                    for pc2, b in self.ev_bool(v, env, pc1):
                        nxt.append((pc2, terms + [b]))
                acc = nxt
            return [(pc1, (z3.And if isinstance(node.op, ast.And) else z3.Or)(*terms)) for pc1, terms in acc]
        if isinstance(node, ast.UnaryOp) and isinstance(node.op, ast.Not):
            return [(pc1, z3.Not(b)) for pc1, b in self.ev_bool(node.operand, env, pc)]
        if isinstance(node, ast.Compare) and len(node.ops) == 1:
            op, right = node.ops[0], node.comparators[0]
            if isinstance(op, (ast.Eq, ast.NotEq)):
                out = []
                for pc1, a in self.ev_str(node.left, env, pc):
                    for pc2, b in self.ev_str(right, env, pc1):
                        out.append((pc2, (a == b) if isinstance(op, ast.Eq) else (a != b)))
                return out
            if isinstance(op, (ast.In, ast.NotIn)) and isinstance(node.left, ast.Constant) and isinstance(node.left.value, str):
                out = []
                for pc1, b in self.ev_str(right, env, pc):
                    # (membership in .*c.* instead of str.contains: z3 decides intersections of regular constraints quickly)
                    c = z3.InRe(b, z3.Concat(rx.FULL, _lit(node.left.value), rx.FULL))
                    out.append((pc1, c if isinstance(op, ast.In) else z3.Not(c)))
                return out
        if isinstance(node, ast.Call) and isinstance(node.func, ast.Attribute):
            meth = node.func.attr
            if meth == "isdigit" and not node.args:
                return [(pc1, z3.InRe(b, z3.Plus(char_class("isdigit")))) for pc1, b in self.ev_str(node.func.value, env, pc)]
            if meth in ("startswith", "endswith") and len(node.args) == 1 and isinstance(node.args[0], ast.Constant) and isinstance(node.args[0].value, str):
                lit = _lit(node.args[0].value)
                shape = z3.Concat(lit, rx.FULL) if meth == "startswith" else z3.Concat(rx.FULL, lit)
                return [(pc1, z3.InRe(b, shape)) for pc1, b in self.ev_str(node.func.value, env, pc)]
        raise Unsupported(f"boolean expression {ast.dump(node)[:80]}")

    def ev_return(self, node, env, pc):
        """-> list of (pc, kind, value, raises or None)"""
        if node is None:
            return [(pc, "return:None", None, None)]
        if isinstance(node, ast.Constant) and node.value in (True, False, None) and not isinstance(node.value, (int, float)) or (isinstance(node, ast.Constant) and isinstance(node.value, bool)):
            return [(pc, f"return:{node.value}", None, None)]
        if isinstance(node, ast.Name) and node.id not in env:
            return [(pc, f"return:name:{node.id}", None, None)]
        if isinstance(node, ast.Call) and isinstance(node.func, ast.Name) and node.func.id in ("int", "float") and len(node.args) == 1:
            lang = int_ok() if node.func.id == "int" else float_ok()
            out = []
            for pc1, v in self.ev_str(node.args[0], env, pc):
                ok = z3.InRe(v, lang)
                out.append((pc1 + [ok], f"return:{node.func.id}", v, None))
                out.append((pc1 + [z3.Not(ok)], None, v, "ValueError"))
            return out
        raise Unsupported(f"return expression {ast.dump(node)[:80]}")

    # ---- statements: run a block; returns list of (env, pc) that fall through; records outcomes; raises propagate as tuples
    def run_block(self, stmts, env, pc, handlers):
        """handlers: stack of lists of exception names caught by enclosing try blocks (innermost last), each with its
        continuation. Returns list of fall-through states [(env, pc)]."""
        states = [(env, pc)]
        for st in stmts:
            nxt = []
            for env1, pc1 in states:
                nxt.extend(self.run_stmt(st, env1, pc1, handlers))
            states = nxt
        return states

    def run_stmt(self, st, env, pc, handlers):
        if isinstance(st, ast.Pass):
            return [(env, pc)]
        if isinstance(st, ast.Expr) and isinstance(st.value, ast.Constant):
            return [(env, pc)]  # docstring
        if isinstance(st, ast.Assign) and len(st.targets) == 1 and isinstance(st.targets[0], ast.Name):
            out = []
            for pc1, v in self.ev_str(st.value, env, pc):
                e2 = dict(env)
                e2[st.targets[0].id] = v
                out.append((e2, pc1))
            return out
        if isinstance(st, ast.If):
            out = []
            for pc1, b in self.ev_bool(st.test, env, pc):
                out.extend(self.run_block(st.body, env, pc1 + [b], handlers))
                out.extend(self.run_block(st.orelse, env, pc1 + [z3.Not(b)], handlers))
            return out
        if isinstance(st, ast.Return):
            fall = []
            for pc1, kind, value, raises in self.ev_return(st.value, env, pc):
                if raises is None:
                    self.outcomes.append(Outcome(pc1, kind, value))
                else:
                    fall.extend(self.raise_(raises, env, pc1, handlers, value))
            return fall
        if isinstance(st, ast.Try):
            if st.finalbody or st.orelse:
                raise Unsupported("try with finally/else")
            caught = []
            for h in st.handlers:
                if h.type is None:
                    names = ["BaseException"]
                elif isinstance(h.type, ast.Name):
                    names = [h.type.id]
                elif isinstance(h.type, ast.Tuple) and all(isinstance(e, ast.Name) for e in h.type.elts):
                    names = [e.id for e in h.type.elts]
                else:
                    raise Unsupported("except clause")
                caught.append((names, h.body))
            landing = []  # states that continue after the try statement because a handler ran
            frame = dict(caught=caught, landing=landing, outer=handlers)
            fall = self.run_block(st.body, env, pc, handlers + [frame])
            return fall + landing
        raise Unsupported(f"statement {type(st).__name__}")

    def raise_(self, exc, env, pc, handlers, value=None):
        """An exception of type `exc` is raised at (env, pc). Returns fall-through states (none here: handler
        continuations are appended to the landing list of the try frame that catches it)."""
        hierarchy = {"ValueError": ["ValueError", "Exception", "BaseException"]}.get(exc, [exc, "Exception", "BaseException"])
        for depth in range(len(handlers) - 1, -1, -1):
            frame = handlers[depth]
            for names, body in frame["caught"]:
                if any(n in hierarchy for n in names):
                    cont = self.run_block(body, env, pc, frame["outer"])
                    frame["landing"].extend(cont)
                    return []
        self.outcomes.append(Outcome(pc, "raise:" + exc, value))
        return []

    def run(self):
        env = {self.param_name: self.param}
        body = list(self.fdef.body)
        base_pc = []
        # `p = p.strip()` as first statement: quantify over the stripped value directly (every stripped string is
        # the strip() of itself, every input is mapped to a stripped one), which avoids two existential strings
        st0 = body[0] if body else None
        if (isinstance(st0, ast.Assign) and len(st0.targets) == 1 and isinstance(st0.targets[0], ast.Name) and st0.targets[0].id == self.param_name
                and isinstance(st0.value, ast.Call) and isinstance(st0.value.func, ast.Attribute) and st0.value.func.attr == "strip" and not st0.value.args
                and isinstance(st0.value.func.value, ast.Name) and st0.value.func.value.id == self.param_name):
            ws = char_class("space")
            v = self.param
            base_pc = [z3.Or(v == z3.StringVal(""), z3.And(z3.Not(z3.InRe(z3.SubString(v, 0, 1), ws)), z3.Not(z3.InRe(z3.SubString(v, z3.Length(v) - 1, 1), ws))))]
            body = body[1:]
            self.param_is_stripped = True
        fall = self.run_block(body, env, base_pc, [])
        for env1, pc1 in fall:
            self.outcomes.append(Outcome(pc1, "return:None"))
        return self.outcomes


def concrete_kind(fn, s):
    """Outcome kind of the real function on a concrete string."""
    try:
        r = fn(s)
    except Exception as ex:
        return "raise:" + type(ex).__name__
    if r is True or r is False or r is None:
        return f"return:{r}"
    if isinstance(r, bool):
        return f"return:{r}"
    if isinstance(r, int):
        return "return:int"
    if isinstance(r, float):
        return "return:float"
    return "return:name:" + getattr(r, "__name__", "not_loaded")


def encoded_kinds(se, outcomes, s):
    """Which outcome kinds does the encoding allow for the concrete string s? (should be exactly one)"""
    kinds = set()
    for o in outcomes:
        sol = z3.Solver()
        sol.set("timeout", 10000)
        sol.add(se.param == z3.StringVal(map_to_alphabet(s.strip() if se.param_is_stripped else s)))
        sol.add(*o.pc)
        if str(sol.check()) == "sat":
            kinds.add(o.kind)
    return kinds
