"""Stubs applied inside the check's own process (never in /repo). Each is part of the claim
and is listed in the evidence of the checks that use it."""
import inspect

FORMAT_STUBS_NOTE = (
    "message formatting: _typehints.raise_unexpected_value / raise_union_unexpected_value / indent_text raise the same exception "
    "type with the same __cause__ and a constant message; format() of a symbolic number yields '<sym>'"
)
TEXT_STUB_NOTE = (
    "text layer: _core.dump_using_format is wrapped - for the parser under test it captures the basic-type dict about to be "
    "serialised (that dict is what gets re-parsed); for the per-class parsers created during serialisation it returns a token that "
    "_typehints.load_value maps back to the dict (assumption: a basic-type dict survives the text round trip, decided separately "
    "for scalars by the E-SMT queries of C01)"
)


def install_format_stubs():
    import jsonargparse._typehints as T

    if getattr(T, "_vf_fmt", False):
        return

    def raise_unexpected_value(message, val=inspect._empty, exception=None):
        raise ValueError("unexpected value") from exception

    def raise_union_unexpected_value(subtypes, val, exceptions):
        raise ValueError("does not validate against any of the Union subtypes") from exceptions[0]

    T.raise_unexpected_value = raise_unexpected_value
    T.raise_union_unexpected_value = raise_union_unexpected_value
    T.indent_text = lambda text, first_line=True: text
    T._vf_fmt = True


class TextStub:
    """with TextStub(parser) as ts: parser.dump(cfg) ; ts.captured -> list of dicts"""

    def __init__(self, parser):
        self.parser = parser
        self.captured = []
        self.stash = {}

    def __enter__(self):
        import jsonargparse._core as C
        import jsonargparse._typehints as T

        self.C, self.T = C, T
        self.orig_dump = C.dump_using_format
        self.orig_load = T.load_value
        stub = self

        def dump_using_format(parser, data, dump_format):
            if parser is stub.parser:
                stub.captured.append(data)
                return ""
            token = f"@@vf-token-{len(stub.stash)}@@"
            stub.stash[token] = data
            return token

        def load_value(value, *a, **k):
            if isinstance(value, str) and value in stub.stash:
                return stub.stash[value]
            return stub.orig_load(value, *a, **k)

        C.dump_using_format = dump_using_format
        T.load_value = load_value
        return self

    def __exit__(self, *exc):
        self.C.dump_using_format = self.orig_dump
        self.T.load_value = self.orig_load
        return False


def capture_dump(parser, cfg, **kw):
    """The basic-type dict that parser.dump(cfg, **kw) is about to serialise."""
    with TextStub(parser) as ts:
        parser.dump(cfg, **kw)
    if len(ts.captured) != 1:
        raise RuntimeError(f"text stub captured {len(ts.captured)} top-level dicts")
    return ts.captured[0]
