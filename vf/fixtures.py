"""Importable classes used by the parser shapes (class_path strings must be importable)."""
import enum
from dataclasses import dataclass, field
from typing import Dict, List, Optional, Tuple, Union

LOG = []


class Color(enum.Enum):
    RED = 1
    GREEN = 2
    BLUE = 3


class Base:
    def __init__(self, w: int = 1):
        self.w = w
        LOG.append((type(self).__name__, dict(w=w), self))


class Sub1(Base):
    def __init__(self, w: int = 1, z: float = 0.5, k: Optional[int] = 4):
        self.w = w
        self.z = z
        self.k = k
        LOG.append((type(self).__name__, dict(w=w, z=z, k=k), self))


class Sub2(Base):
    def __init__(self, w: int = 2, items: Optional[List[int]] = None, flag: bool = False):
        self.w = w
        self.items = items
        self.flag = flag
        LOG.append((type(self).__name__, dict(w=w, items=items, flag=flag), self))


class NoW(Base):
    """A subclass whose constructor does not take the parameter w."""

    def __init__(self, v: int = 0):
        self.v = v
        LOG.append((type(self).__name__, dict(v=v), self))


class NoParams(Base):
    """A subclass whose constructor takes no parameter at all."""

    def __init__(self):
        LOG.append((type(self).__name__, dict(), self))


class Other:
    def __init__(self, q: int = 0):
        self.q = q
        LOG.append((type(self).__name__, dict(q=q), self))


class Holder:
    """A class with a nested class-typed parameter."""

    def __init__(self, inner: Base, n: int = 0, many: Optional[List[Base]] = None):
        self.inner = inner
        self.n = n
        self.many = many
        LOG.append((type(self).__name__, dict(inner=inner, n=n, many=many), self))


class Kw(Base):
    def __init__(self, w: int = 3, **kwargs):
        self.w = w
        self.kwargs = kwargs
        LOG.append((type(self).__name__, dict(w=w, **kwargs), self))


@dataclass
class Inner:
    k: int = 3
    r: Optional[float] = None


@dataclass
class OptHolder:
    q: Optional[Inner] = None  # a signature-derived Optional[dataclass] member: its action keeps sub_add_kwargs between parses


@dataclass
class Outer:
    a: int = 1
    inner: Inner = field(default_factory=Inner)
    lst: List[int] = field(default_factory=lambda: [1, 2])


@dataclass
class Req:
    a: int
    b: Optional[float] = None
    c: Optional[int] = 3  # a field that accepts None although its default is not None


import abc  # noqa: E402


class AbstractB(abc.ABC):
    def __init__(self, a: int = 0):
        self.a = a

    @abc.abstractmethod
    def run(self):
        ...


class Concrete(AbstractB):
    def __init__(self, a: int = 0, b: float = 1.0):
        super().__init__(a)
        self.b = b
        LOG.append((type(self).__name__, dict(a=a, b=b), self))

    def run(self):
        return self.a


def make_base(w: int = 9) -> Base:
    """A callable returning an instance of the base class."""
    return Base(w=w)


def make_sub1(w: int = 9) -> Sub1:
    """A callable whose return type is a strict subclass of Base."""
    return Sub1(w=w)


def make_object(w: int = 9) -> object:
    """A callable whose return type is a strict superclass of every class here."""
    return Base(w=w)


def make_other(q: int = 9) -> Other:
    return Other(q=q)


NOT_A_CLASS = 5


class NeedsW(Base):
    """A subclass with a required constructor parameter."""

    def __init__(self, w: int, t: float = 0.5, hidden_size: int = 3):
        self.w = w
        self.t = t
        self.hidden_size = hidden_size
        LOG.append((type(self).__name__, dict(w=w, t=t, hidden_size=hidden_size), self))


@dataclass
class G1:
    c: List[int]
    a: int = 1
    b: Optional[float] = None


class G1Class:
    def __init__(self, c: List[int], a: int = 1, b: Optional[float] = None):
        self.c, self.a, self.b = c, a, b


@dataclass
class G2:
    flag: bool = False
    name: str = "n"
    inner: Inner = field(default_factory=Inner)


class G2Class:
    def __init__(self, flag: bool = False, name: str = "n", inner: Inner = Inner()):
        self.flag, self.name, self.inner = flag, name, inner


@dataclass
class Named:
    size_total: int = 1
    label: str = "l"


class MidAbstract(Base, abc.ABC):
    """An abstract intermediate class below the base."""

    @abc.abstractmethod
    def act(self):
        ...


class Leaf(MidAbstract):
    """A concrete class below an abstract intermediate."""

    def __init__(self, w: int = 6, depth: int = 1):
        self.w = w
        self.depth = depth
        LOG.append((type(self).__name__, dict(w=w, depth=depth), self))

    def act(self):
        return self.w


@dataclass
class G3:
    tags: Optional[List[int]]
    n: int = 1
    lit: Optional[Dict[str, int]] = None


class G3Class:
    def __init__(self, tags: Optional[List[int]], n: int = 1, lit: Optional[Dict[str, int]] = None):
        self.tags, self.n, self.lit = tags, n, lit


from jsonargparse.typing import PositiveFloat  # noqa: E402  (the analysed tree is first on sys.path by the time this module is imported)


@dataclass
class Limits:
    lim: PositiveFloat = 1.0
    n: int = 0


@dataclass
class Sched:
    lr: float  # required, and named like a parameter of the class that holds it
    steps: int = 10


class BaseOpt:
    pass


class Opt(BaseOpt):
    """A class whose own `lr` is a link target while its dataclass parameter has a required field of the same name."""

    def __init__(self, lr: float, schedule: Sched, momentum: float = 0.0):
        self.lr, self.schedule, self.momentum = lr, schedule, momentum
        LOG.append((type(self).__name__, dict(lr=lr, schedule=schedule, momentum=momentum), self))


@dataclass
class DataSettings:
    batch: int = 8
    shuffle: bool = False


class DataGroup:
    def __init__(self, batch: int = 8, shuffle: bool = False):
        self.batch, self.shuffle = batch, shuffle


class LModel:
    pass


class LModelStruct(LModel):
    def __init__(self, data_cfg: DataSettings, width: int = 1):
        self.data_cfg, self.width = data_cfg, width


class LModelDict(LModel):
    def __init__(self, data_cfg: dict, width: int = 1):
        self.data_cfg, self.width = data_cfg, width


@dataclass
class Item:
    x: int = 1
    tag: str = "t"


@dataclass
class G4:
    a: int = 1
    m: Dict[str, Item] = field(default_factory=dict)


class G4Class:
    def __init__(self, a: int = 1, m: Dict[str, Item] = {}):  # noqa: B006
        self.a, self.m = a, m


def g4_default_instance():
    """The defaults of group G4 stated the way the dataclass style offers: an instance whose dict member holds dataclass instances."""
    return G4(a=2, m={"k": Item(x=6)})
