"""Shared conventions: repo location, exit codes, evidence, known findings, replays."""
import json
import os
import subprocess
import sys
import time

VERIF = os.path.dirname(os.path.dirname(os.path.abspath(__file__)))
REPO = os.environ.get("VERIF_REPO", "/repo")

EXIT_OK = 0
EXIT_VIOLATION = 1
EXIT_INCONCLUSIVE = 2


def use_repo():
    """Put the analysed tree first on sys.path (beats the editable install)."""
    if sys.path[0] != REPO:
        sys.path.insert(0, REPO)
    for name in list(sys.modules):
        if name == "jsonargparse" or name.startswith("jsonargparse."):
            mod = sys.modules[name]
            f = getattr(mod, "__file__", "") or ""
            if not f.startswith(REPO):
                del sys.modules[name]


def seed():
    try:
        return int(os.environ.get("VERIF_SEED", "0"))
    except ValueError:
        return 0


class Inconclusive(Exception):
    """Harness error / solver unknown / missing internal name: exit 2, never a violation."""


def load_findings(prop):
    path = os.path.join(VERIF, "known_findings.json")
    if not os.path.exists(path):
        return []
    with open(path) as f:
        data = json.load(f)
    return [e for e in data.get("known", []) if e.get("property") == prop]


class Report:
    """Accumulates what one check run covered and decides the exit code."""

    def __init__(self, prop, tier, level="model_checking"):
        self.prop = prop
        self.tier = tier
        self.level = level
        self.t0 = time.time()
        self.queries = []  # E-SMT: dict(name, result, seconds, solver)
        self.harnesses = []  # E-CH: dict per harness/shard
        self.samples = []
        self.assumptions = []
        self.stubs = []
        self.functions = []
        self.bounds = {}
        self.extra = {}
        self.evaluations = 0
        self.nontrivial = 0
        self.rule = ""
        self.violations = []  # dicts: what, replay
        self.known = []  # matched known findings (strings)
        self.inconclusive = []  # reasons
        self.notes = []
        self.findings = load_findings(prop)
        self._replay_n = 0

    # -- known findings -------------------------------------------------
    def match_finding(self, klass, values=None):
        """Return the known-finding entry that covers failure class `klass`, if any.

        An entry pins a finding by `class` (exact failure class string produced by the
        harness) and optionally `where`: a dict of value constraints; every key of
        `where` must equal the corresponding counterexample value."""
        for e in self.findings:
            if e.get("class") != klass:
                continue
            where = e.get("where") or {}
            if not all((values or {}).get(k) == v for k, v in where.items()):
                continue
            # optional regular expressions over (string) values, e.g. the failure detail
            import re

            rxs = e.get("where_regex") or {}
            if all(re.search(rx, str((values or {}).get(k, ""))) for k, rx in rxs.items()):
                return e
        return None

    # -- outcome recording ------------------------------------------------
    def add_query(self, name, result, seconds, solver="z3", **kw):
        self.queries.append(dict(name=name, result=str(result), seconds=round(seconds, 3), solver=solver, **kw))
        self.evaluations += 1

    def violation(self, what, replay_payload):
        d = os.path.join(VERIF, "replays", self.prop)
        os.makedirs(d, exist_ok=True)
        self._replay_n += 1
        path = os.path.join(d, f"{self.tier}-{self._replay_n}.json")
        with open(path, "w") as f:
            json.dump(replay_payload, f, indent=1, default=repr)
        self.violations.append(dict(what=what, replay=path))
        print(f"VIOLATION property={self.prop} replay={path}", flush=True)
        print(f"  what: {what}", flush=True)

    def known_finding(self, entry, detail=""):
        msg = f"KNOWN-FINDING: property={self.prop} {entry['what']}"
        if msg not in self.known:
            self.known.append(msg)
            print(msg + (f"  [{detail}]" if detail else ""), flush=True)

    def inconc(self, reason):
        self.inconclusive.append(reason)
        print(f"INCONCLUSIVE property={self.prop}: {reason}", flush=True)

    # -- final ---------------------------------------------------------------
    def finish(self):
        wall = time.time() - self.t0
        cov = dict(
            evaluations=int(self.evaluations),
            distinct_nontrivial=int(self.nontrivial),
            rule=self.rule,
            samples=self.samples[:40] or ["<none>"],
            functions_encoded=self.functions,
            bounds=self.bounds,
            queries=self.queries,
            solver_time_s=round(sum(q["seconds"] for q in self.queries) + sum(h.get("cpu_s", 0) for h in self.harnesses), 2),
            harnesses=self.harnesses,
            paths=sum(h.get("paths", 0) for h in self.harnesses),
            exhaustive=bool(self.harnesses or self.queries)
            and all(h.get("exhausted") for h in self.harnesses)
            and all(q["result"] in ("unsat", "sat-expected", "sat-known") for q in self.queries),
            stubs=self.stubs,
            known_findings_matched=self.known,
            inconclusive=self.inconclusive,
            notes=self.notes,
        )
        cov.update(self.extra)
        ev = dict(
            property_id=self.prop,
            tier=self.tier,
            seed=seed(),
            level=self.level,
            coverage=cov,
            assumptions=self.assumptions,
            wall_s=round(wall, 2),
            violations=len(self.violations),
        )
        os.makedirs(os.path.join(VERIF, "evidence"), exist_ok=True)
        with open(os.path.join(VERIF, "evidence", f"{self.prop}.json"), "w") as f:
            json.dump(ev, f, indent=1, default=repr)
        if self.violations:
            code = EXIT_VIOLATION
        elif self.inconclusive:
            code = EXIT_INCONCLUSIVE
        else:
            code = EXIT_OK
        print(
            f"[{self.prop} {self.tier}] evaluations={self.evaluations} nontrivial={self.nontrivial} "
            f"paths={cov['paths']} exhaustive={cov['exhaustive']} violations={len(self.violations)} "
            f"known={len(self.known)} inconclusive={len(self.inconclusive)} wall={wall:.1f}s exit={code}",
            flush=True,
        )
        return code


def run_native(module, func, payload, timeout=300):
    """Run vf.<module>.<func>(payload) in a fresh interpreter without CrossHair or stubs.

    Returns the function's JSON-able return value; raises Inconclusive on crash."""
    env = dict(os.environ)
    env["VERIF_REPO"] = REPO
    env["PYTHONPATH"] = VERIF + os.pathsep + env.get("PYTHONPATH", "")
    p = subprocess.run(
        [sys.executable, "-m", "vf.native", module, func],
        input=json.dumps(payload),
        capture_output=True,
        text=True,
        timeout=timeout,
        env=env,
        cwd=VERIF,
    )
    if p.returncode != 0:
        raise Inconclusive(f"native replay {module}.{func} crashed: {p.stderr[-2000:]}")
    last = [l for l in p.stdout.splitlines() if l.startswith("@@RESULT@@")]
    if not last:
        raise Inconclusive(f"native replay {module}.{func} gave no result: {p.stdout[-500:]} {p.stderr[-500:]}")
    return json.loads(last[-1][len("@@RESULT@@"):])
