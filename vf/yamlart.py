"""Artefacts of the text layer, read from the live jsonargparse / PyYAML objects on every run."""
import json
import math
import re

import z3

from . import rx
from .common import Inconclusive

INT_TAG = "tag:yaml.org,2002:int"
FLOAT_TAG = "tag:yaml.org,2002:float"
BOOL_TAG = "tag:yaml.org,2002:bool"
NULL_TAG = "tag:yaml.org,2002:null"
STR_TAG = rx.STR_TAG


def capture():
    """Returns dict(loader_table, dumper_table, dumper_class, dump_kwargs, json_kwargs, omegaconf_table)."""
    import yaml

    import jsonargparse._loaders_dumpers as ld

    art = {}
    loader = ld.get_yaml_default_loader()
    art["loader_class"] = loader
    art["loader_table"] = loader.yaml_implicit_resolvers
    spy = {}
    orig = yaml.dump_all

    def dump_all(documents, stream=None, Dumper=yaml.Dumper, **kw):
        spy["Dumper"] = Dumper
        spy["kw"] = kw
        return orig(documents, stream, Dumper=Dumper, **kw)

    yaml.dump_all = dump_all
    try:
        ld.dumpers["yaml"]({"a": 1})
    finally:
        yaml.dump_all = orig
    if "Dumper" not in spy:
        raise Inconclusive("yaml dumper does not go through yaml.dump_all; cannot find the Dumper class in use")
    art["dumper_class"] = spy["Dumper"]
    art["dumper_table"] = spy["Dumper"].yaml_implicit_resolvers
    art["dump_kwargs"] = spy["kw"]
    art["json_kwargs"] = dict(ld.dump_json_kwargs)
    try:
        from omegaconf._utils import get_yaml_loader

        art["omegaconf_table"] = get_yaml_loader().yaml_implicit_resolvers
    except Exception:
        art["omegaconf_table"] = None
    return art


# ---- environment models (regular languages), each validated against the real library ------

PLAIN_FORBIDDEN_ANYWHERE = "\n\r\x85\u2028\u2029"


def plain_possible(s):
    """Necessary conditions for PyYAML's emitter to write the str scalar s in plain style
    (over-approximation: spurious models are removed by replay)."""
    nonempty = z3.Length(s) >= 1
    no_breaks = z3.And(*[z3.Not(z3.Contains(s, z3.StringVal(c))) for c in PLAIN_FORBIDDEN_ANYWHERE])
    first = z3.SubString(s, 0, 1)
    last = z3.SubString(s, z3.Length(s) - 1, 1)
    edges = z3.And(*[z3.And(first != z3.StringVal(c), last != z3.StringVal(c)) for c in " \t"])
    return z3.And(nonempty, no_breaks, edges)


# strings on which SafeConstructor.construct_yaml_int / _float raise ValueError although the
# resolver gave them that tag (candidate languages; validated in validate_fail_languages)
FAIL_INT = re.compile(r"[-+]?0[bx]_+$")
FAIL_FLOAT = re.compile(r"[-+]?\._+(?:[eE][-+]?[0-9]+)?$")

# output languages of the representers / json encoder
OUT_YAML_INT = re.compile(r"-?(?:0|[1-9][0-9]*)$")
OUT_YAML_FLOAT = re.compile(r"(?:-?\.inf|\.nan|-?[0-9]+\.[0-9]+(?:e[-+][0-9]+)?)$")
OUT_YAML_BOOL = re.compile(r"(?:true|false)$")
OUT_YAML_NULL = re.compile(r"null$")
OUT_JSON_INT = OUT_YAML_INT
OUT_JSON_FLOAT_FINITE = re.compile(r"-?(?:[0-9]+\.[0-9]+|[0-9]+(?:\.[0-9]+)?e[-+][0-9]+)$")
OUT_JSON_FLOAT_NONFINITE = re.compile(r"(?:-?Infinity|NaN)$")
JSON_NUMBER = re.compile(r"-?(?:0|[1-9][0-9]*)(?:\.[0-9]+)?(?:[eE][-+]?[0-9]+)?$")
JSON_INT = re.compile(r"-?(?:0|[1-9][0-9]*)$")


def sample_floats():
    out = [0.0, -0.0, 1.0, -1.5, 1e16, 1e-5, 1.5e300, -2.5e-300, 123456789.125, 1e22, 1e21, 9.999e15, 1e15, 5e-324,
           1.7976931348623157e308, 0.1, 1 / 3, 1e-4, 1e-7, 12345678901234567890.0, float("inf"), float("-inf"), float("nan")]
    for e in range(-30, 31, 3):
        out += [10.0 ** e, -3.25 * 10.0 ** e, 7.0 * 10.0 ** e]
    return out


def validate_output_models(art, json_allow_nan):
    """Returns (checked, problems): the output-language models against the real dumpers."""
    import yaml

    checked, bad = 0, []
    D = art["dumper_class"]
    for f in sample_floats():
        text = yaml.dump(f, Dumper=D).splitlines()[0]
        checked += 1
        if not OUT_YAML_FLOAT.match(text):
            bad.append(("yaml-float", f, text))
        try:
            jt = json.dumps(f, **{k: v for k, v in art["json_kwargs"].items() if k in ("allow_nan",)})
        except ValueError:
            jt = None
        if jt is not None:
            checked += 1
            ok = OUT_JSON_FLOAT_FINITE.match(jt) if math.isfinite(f) else OUT_JSON_FLOAT_NONFINITE.match(jt)
            if not ok:
                bad.append(("json-float", f, jt))
    for i in [0, 1, -1, 10, -10, 2**70, -(2**70), 123456789, 7, 100]:
        for text in (yaml.dump(i, Dumper=D).splitlines()[0], json.dumps(i)):
            checked += 1
            if not OUT_YAML_INT.match(text):
                bad.append(("int", i, text))
    for v, pat in ((True, OUT_YAML_BOOL), (False, OUT_YAML_BOOL), (None, OUT_YAML_NULL)):
        for text in (yaml.dump(v, Dumper=D).splitlines()[0], json.dumps(v)):
            checked += 1
            if not pat.match(text):
                bad.append(("const", v, text))
    return checked, bad


def validate_fail_languages(art, n=60):
    """Members of FAIL_T inside the loader's T language must make the real constructor raise
    ValueError; sampled members of the T language outside FAIL_T must not."""
    import yaml

    L = art["loader_class"]
    s = z3.String("w")
    ids = rx.all_tag_ids(art["loader_table"])
    tag = rx.tag_term(art["loader_table"], s, ids)
    checked, bad = 0, []
    for T, fail in ((INT_TAG, FAIL_INT), (FLOAT_TAG, FAIL_FLOAT)):
        if T not in ids:
            continue
        for neg in (False, True):
            sol = z3.Solver()
            sol.set("timeout", 20000)
            sol.add(tag == ids[T], z3.Length(s) <= 10, z3.Not(z3.Contains(s, z3.StringVal("\n"))))
            inr = z3.InRe(s, rx.lang(fail, "match"))
            sol.add(z3.Not(inr) if neg else inr)
            got = 0
            while got < n and str(sol.check()) == "sat":
                w = sol.model().eval(s, model_completion=True)
                word = rx.decode(w)
                sol.add(s != w)
                if got % 2:
                    sol.add(z3.SubString(s, 0, 2) != z3.SubString(w, 0, 2))
                got += 1
                checked += 1
                try:
                    yaml.load("- " + word if False else word, Loader=L)
                    raised = False
                except ValueError:
                    raised = True
                except yaml.YAMLError:
                    continue  # not a plain scalar document on its own (e.g. contains ': ')
                if raised != (not neg):
                    bad.append((T, word, "raised" if raised else "loaded", "expected " + ("no error" if neg else "ValueError")))
    return checked, bad
