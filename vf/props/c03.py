"""C03 — every parse failure surfaces as ArgumentError / exit status 2, nothing else.

E-SMT:  strings the yaml loader's resolver tags int/float but whose constructor raises ValueError
        (tag_loader(s)=T and s in Fail_T); each solver witness is replayed through every entry
        point that loads text, in both exit_on_error modes.
E-CH:   fault injection at the third-party boundary (yaml.load): solver-chosen entry point, fault
        kind, exit_on_error mode; a fault kind is injected only if a concrete witness input makes
        the real loader raise it, and only the witness replay can ground a violation.
"""
import io
import os
import tempfile
from contextlib import redirect_stderr, redirect_stdout

import z3

from .. import rx
from .. import yamlart as ya
from ..ch import S, Fail, absorb, native, run_jobs
from ..common import Inconclusive, run_native

FUNCTIONS = [
    "jsonargparse._loaders_dumpers.get_yaml_default_loader (resolver table), yaml_load, load_value, get_loader_exceptions",
    "jsonargparse._core.ArgumentParser.parse_args/parse_string/parse_path/parse_env/parse_object/_load_config_parser_mode/error/get_defaults",
    "jsonargparse._actions.ActionConfigFile.apply_config",
    "jsonargparse._typehints.ActionTypeHint._check_type",
    "jsonargparse._loaders_dumpers.load_basic (E-AST: symbolic execution of its source AST into z3 string constraints)",
]

ENTRY_POINTS = ["parse_string", "parse_path", "cfg_text", "cfg_file", "env_cfg", "default_config_file", "option_value_any", "option_value_list", "env_var"]
# the same entry points fed a *whole* text (the value is the entire config / option value, which is what the
# hand-written pre-loader load_basic sees)
WHOLE_ENTRY_POINTS = ["whole:parse_string", "whole:parse_path", "whole:cfg_text", "whole:env_cfg", "whole:default_config_file", "whole:option_value_any",
                      "whole:option_value_list", "whole:env_var_list", "whole:group_option"]


def _parser(exit_on_error, default_files=None):
    from typing import Any, List

    from jsonargparse import ActionConfigFile, ArgumentParser

    p = ArgumentParser(exit_on_error=exit_on_error, prog="app", default_env=False, default_config_files=default_files or [])
    p.add_argument("--cfg", action=ActionConfigFile)
    p.add_argument("--a", type=Any, default=None)
    p.add_argument("--l", type=List[int], default=[])
    p.add_argument("--s", type=str, default="")
    from ..fixtures import Inner

    p.add_argument("--g", type=Inner, default=Inner())
    return p


def _outcome(fn, exit_on_error):
    """Run fn; classify what leaves the call. Returns (kind, detail)."""
    from jsonargparse import ArgumentError, Namespace

    out, err = io.StringIO(), io.StringIO()
    try:
        with redirect_stdout(out), redirect_stderr(err):
            r = fn()
        return ("namespace" if isinstance(r, Namespace) else "other-return", type(r).__name__)
    except ArgumentError as ex:
        return ("ArgumentError", str(ex)[:120]) if not exit_on_error else ("wrong-channel", "ArgumentError raised although exit_on_error=True")
    except SystemExit as ex:
        if not exit_on_error:
            return ("wrong-channel", f"SystemExit({ex.code}) although exit_on_error=False")
        if ex.code == 2 and "error:" in err.getvalue() and "usage:" in err.getvalue():
            return ("exit2", "")
        return ("wrong-exit", f"status={ex.code} stderr={err.getvalue()[-120:]!r}")
    except RecursionError as ex:
        return ("escaped:RecursionError", str(ex)[:100])
    except Exception as ex:
        return ("escaped:" + type(ex).__name__, str(ex)[:160])


def _call_entry(entry, text_value, exit_on_error, inject=None):
    """Feed the scalar text `text_value` (e.g. '0b_') at key a through one entry point.
    inject: optional callable applied around the call (fault injection context manager)."""
    d = tempfile.mkdtemp(prefix="c03_")
    try:
        doc = f"a: {text_value}\n"
        if entry.startswith("whole:"):
            doc = text_value
        path = os.path.join(d, "c.yaml")
        with open(path, "w") as f:
            f.write(doc)
        dflt = [path] if entry.endswith("default_config_file") else None

        def run():
            p = _parser(exit_on_error, dflt)
            if entry == "parse_string":
                return p.parse_string(doc)
            if entry == "parse_path":
                return p.parse_path(path)
            if entry == "cfg_text":
                return p.parse_args(["--cfg", doc])
            if entry == "cfg_file":
                return p.parse_args(["--cfg", path])
            if entry == "env_cfg":
                return p.parse_env({"APP_CFG": doc})
            if entry == "default_config_file":
                return p.parse_args([])
            if entry == "option_value_any":
                return p.parse_args([f"--a={text_value}"])
            if entry == "option_value_list":
                return p.parse_args([f"--l=[{text_value}]"])
            if entry == "env_var":
                return p.parse_env({"APP_L": f"[{text_value}]"})
            if entry == "whole:parse_string":
                return p.parse_string(doc)
            if entry == "whole:parse_path":
                return p.parse_path(path)
            if entry == "whole:cfg_text":
                return p.parse_args(["--cfg", doc])
            if entry == "whole:env_cfg":
                return p.parse_env({"APP_CFG": doc})
            if entry == "whole:default_config_file":
                return p.parse_args([])
            if entry == "whole:option_value_any":
                return p.parse_args([f"--a={text_value}"])
            if entry == "whole:option_value_list":
                return p.parse_args([f"--l={text_value}"])
            if entry == "whole:env_var_list":
                return p.parse_env({"APP_L": text_value})
            if entry == "whole:group_option":
                return p.parse_args([f"--g={text_value}"])
            raise RuntimeError(entry)

        if inject is None:
            return _outcome(run, exit_on_error)
        with inject:
            return _outcome(run, exit_on_error)
    finally:
        import shutil

        shutil.rmtree(d, ignore_errors=True)


OK_KINDS = {"namespace", "ArgumentError", "exit2"}


def replay_witness(payload):
    """payload: value (scalar text), entries (optional)."""
    def run():
        bad = []
        for entry in payload.get("entries") or ENTRY_POINTS:
            for eoe in (False, True):
                kind, detail = _call_entry(entry, payload["value"], eoe)
                if kind not in OK_KINDS:
                    bad.append((entry, eoe, kind, detail))
        if bad:
            return Fail("leak:" + bad[0][2], leaks=bad)
        return True

    return native(run)


# ---- extra concrete witnesses (document-structure / argv cases no solver variable reaches) ----


def _extra_cases():
    deep = "[" * 2000 + "]" * 2000
    return {
        "deep-nesting-Any": lambda p: p.parse_string("a: " + deep),
        "deep-nesting-option": lambda p: p.parse_args(["--a=" + deep]),
        "self-referential-alias-Any": lambda p: p.parse_string("a: &x [*x]"),
        "cfg-equals-double-dash": lambda p: p.parse_args(["--cfg=--"]),
        "int-with-5000-digits": lambda p: p.parse_string("a: " + "1" * 5000),
        "unterminated-flow": lambda p: p.parse_string("a: ["),
        "tab-indent": lambda p: p.parse_string("a:\n\t- 1"),
        "non-dict-config": lambda p: p.parse_string("- 1\n- 2"),
        "unknown-anchor": lambda p: p.parse_string("a: *nope"),
        "missing-config-file": lambda p: p.parse_args(["--cfg", "/nonexistent/x.yaml"]),
        "directory-as-config": lambda p: p.parse_args(["--cfg", "/tmp"]),
        "empty-option-name": lambda p: p.parse_args(["--=1"]),
        "dotted-unknown": lambda p: p.parse_args(["--a.b.=1"]),
        "plus-suffix-on-non-list": lambda p: p.parse_args(["--s+=1"]),
        "parse_path-missing": lambda p: p.parse_path("/nonexistent/x.yaml"),
        "parse_path-directory": lambda p: p.parse_path("/tmp"),
        "parse_path-not-utf8": lambda p: p.parse_path(_bytes_file(b"a: \xff\xfe\n")),
        "cfg-file-not-utf8": lambda p: p.parse_args(["--cfg", _bytes_file(b"a: \xff\xfe\n")]),
        "cfg-null-byte": lambda p: p.parse_args(["--cfg=a\x00b"]),
        "subcommand-section-scalar-config": lambda p: _sub_parser(p).parse_args(["--cfg", '{"a": 3}', "a"]),
        "subcommand-section-none-object": lambda p: _sub_parser(p).parse_object({"subcommand": "a", "a": None}),
        "subcommand-section-list-string": lambda p: _sub_parser(p).parse_string("a: [1]"),
        "broken-default-config-and-required": lambda p: _broken_default_parser(p).parse_args(["--r=1"]),
        "broken-default-config-missing-required": lambda p: _broken_default_parser(p).parse_args([]),
    }


def _bytes_file(data):
    d = tempfile.mkdtemp(prefix="c03b_")
    path = os.path.join(d, "f.yaml")
    with open(path, "wb") as f:
        f.write(data)
    return path


def _sub_parser(p):
    from jsonargparse import ActionConfigFile, ArgumentParser

    root = ArgumentParser(exit_on_error=p.exit_on_error, prog="app")
    root.add_argument("--cfg", action=ActionConfigFile)
    a = ArgumentParser(exit_on_error=p.exit_on_error)
    a.add_argument("--x", type=int, default=1)
    b = ArgumentParser(exit_on_error=p.exit_on_error)
    b.add_argument("--y", type=int, default=2)
    sc = root.add_subcommands()
    sc.add_subcommand("a", a)
    sc.add_subcommand("b", b)
    return root


def _broken_default_parser(p):
    from jsonargparse import ArgumentParser

    d = tempfile.mkdtemp(prefix="c03d_")
    path = os.path.join(d, "defaults.yaml")
    with open(path, "w") as f:
        f.write("n: notanint\n")
    q = ArgumentParser(exit_on_error=p.exit_on_error, prog="app", default_config_files=[path])
    q.add_argument("--n", type=int, default=0)
    q.add_argument("--r", type=int, required=True)
    return q


def replay_extra(payload):
    def run():
        fn = _extra_cases()[payload["case"]]
        bad = []
        for eoe in (False, True):
            kind, detail = _outcome(lambda: fn(_parser(eoe)), eoe)
            if kind not in OK_KINDS:
                bad.append((payload["case"], eoe, kind, detail))
        if bad:
            return Fail("leak:" + bad[0][2], leaks=bad)
        return True

    return native(run)


# ---- fault injection harness ---------------------------------------------------------------

FAULTS = ["YAMLError", "ValueError", "returns-None", "returns-int", "returns-list", "returns-str"]
WITNESS = {"YAMLError": "[", "ValueError": "0b_", "returns-None": "", "returns-int": "1", "returns-list": "[1]", "returns-str": "x"}


class _Inject:
    """Replace yaml.load (the third-party boundary below yaml_load) for the duration of one call.
    The fault fires on every load whose text contains the marker."""

    def __init__(self, fault):
        self.fault = fault

    def __enter__(self):
        import yaml

        self.yaml = yaml
        self.orig = yaml.load
        fault = self.fault

        def load(stream, Loader=None, **kw):
            text = stream if isinstance(stream, str) else None
            if text is not None and "MARK" in text:
                if fault == "YAMLError":
                    raise yaml.YAMLError("injected")
                if fault == "ValueError":
                    raise ValueError("injected")
                if fault == "returns-None":
                    return None
                if fault == "returns-int":
                    return 7
                if fault == "returns-list":
                    return [1]
                if fault == "returns-str":
                    return "str"
            return self.orig(stream, Loader=Loader, **kw)

        yaml.load = load
        return self

    def __exit__(self, *a):
        self.yaml.load = self.orig
        return False


def inject():
    _call_entry("parse_string", "1", False)  # warm-up

    def harness():
        entry = S.pick("entry", ENTRY_POINTS)
        fault = S.pick("fault", FAULTS)
        eoe = S.flag("exit_on_error")
        kind, detail = _call_entry(entry, "MARK", eoe, inject=_Inject(fault))
        S.note(kind)
        if kind not in OK_KINDS:
            return Fail("inject:" + kind, entry=entry, fault=fault, exit_on_error=eoe, detail=detail)
        return True

    return harness


# ---- grid: ill-formed values x typed options x channels x exit modes (solver-enumerated) ------

GRID_TYPES = ["int", "list", "dict", "any", "class", "type", "callable", "path", "enum", "optdc", "union", "tuple",
              "float", "dictint", "decimal", "timedelta", "choices", "posint", "listposint", "dcs", "fn", "range", "plaindict"]
GRID_VALUES = {
    "missing-module": "no.such.module.Thing",
    "missing-attr": "os.no_such_attribute",
    "non-class-object": "os.sep",
    "unrelated-class": "vf.fixtures.Other",
    "broken-json": '{"a": [1, ',
    "broken-yaml": "a: [1, }",
    "alias-unknown": "*nope",
    "anchor-self": "&x [*x]",
    "class_path-wrong-type": '{"class_path": 5}',
    "class_path-list": '{"class_path": ["vf.fixtures.Base"]}',
    "init_args-wrong-type": '{"class_path": "vf.fixtures.Base", "init_args": 7}',
    "init_args-list": '{"class_path": "vf.fixtures.Base", "init_args": [1]}',
    "missing-file": "/nonexistent/dir/file.yaml",
    "directory": "/tmp",
    "empty": "",
    "dash": "-",
    "double-dash": "--",
    "unicode-digit": "\u00b2",
    "huge-int": "9" * 5000,
    "nested-quotes": "'\"'",
    "tab": "\t",
    "null-byte": "a\x00b",
    "dotted-empty-segment": "a..b",
    "plus": "+",
    "huge-int-400": "1" + "0" * 400,
    "inf": ".inf",
    "nan": ".nan",
    "inf-key-map": "{.inf: 1}",
    "inf-list": "[.inf]",
    "word": "abc",
    "huge-days": "9999999999999 days, 0:0:0",
    "bad-dc-list": "[{k: bad}]",
    "one": "1",
    "class_path-unknown-module": '{"class_path": "c.D"}',
    "list-of-one": "[1, 2]",
    "spec-base": '{"class_path": "vf.fixtures.Base", "init_args": {"w": 2}}',
}
GRID_CHANNELS = ["argv", "argv-space", "config", "object", "env", "sub-argv", "sub-env", "sub-config", "sub-unknown-option",
                 "argv-after-spec", "config-after-spec", "print-config-skip-default", "parse_string", "object-loaded"]
_PRIOR_SPEC = '{"class_path": "a.B", "init_args": {"x": 1}}'


def _arg_type_fn(v):
    """A type function that rejects the argparse-documented way."""
    import argparse

    if str(v) != "ok":
        raise argparse.ArgumentTypeError(f"not ok: {v!r}")
    return v


def _add_typed_options(p):
    from typing import Any, Callable, Dict, List, Optional, Tuple, Type, Union

    from jsonargparse.typing import Path_fr

    from ..fixtures import Base, Color, Req

    p.add_argument("--int", type=int, default=0)
    p.add_argument("--list", type=List[int], default=[])
    p.add_argument("--dict", type=Dict[str, int], default={})
    p.add_argument("--any", type=Any, default=None)
    p.add_argument("--class", dest="class_", type=Base, default=None)
    p.add_argument("--type", type=Type[Base], default=None)
    p.add_argument("--callable", type=Callable, default=None)
    p.add_argument("--path", type=Path_fr, default=None)
    p.add_argument("--enum", type=Color, default=Color.RED)
    p.add_argument("--optdc", type=Optional[Req], default=None)
    p.add_argument("--union", type=Union[int, List[Base], None], default=None)
    p.add_argument("--tuple", type=Tuple[int, Base], default=None)
    import datetime
    import decimal

    from jsonargparse.typing import PositiveInt

    from ..fixtures import Inner

    p.add_argument("--float", type=float, default=0.0)
    p.add_argument("--dictint", type=Dict[int, int], default={})
    p.add_argument("--decimal", type=decimal.Decimal, default=None)
    p.add_argument("--timedelta", type=datetime.timedelta, default=None)
    p.add_argument("--choices", nargs="+", choices=["a", "b"], default=["a"])
    p.add_argument("--posint", type=PositiveInt, default=1)
    p.add_argument("--listposint", type=List[PositiveInt], default=[])
    p.add_argument("--dcs", type=List[Inner], default=[])
    p.add_argument("--fn", type=_arg_type_fn, default=None)
    p.add_argument("--range", type=range, default=None)
    p.add_argument("--plaindict", type=dict, default=None)


def _grid_parser(exit_on_error, with_subcommands=False):
    from jsonargparse import ActionConfigFile, ArgumentParser

    p = ArgumentParser(exit_on_error=exit_on_error, prog="app")
    p.add_argument("--cfg", action=ActionConfigFile)
    _add_typed_options(p)
    if with_subcommands:
        # sub-parsers are created the way auto_cli creates them: without repeating the parent's settings
        run = ArgumentParser()
        _add_typed_options(run)
        other = ArgumentParser()
        sc = p.add_subcommands()
        sc.add_subcommand("run", run)
        sc.add_subcommand("other", other)
    return p


def _grid_once(tname, vname, channel, eoe):
    import json as _json

    value = GRID_VALUES[vname]
    dest = "class_" if tname == "class" else tname
    opt = "--class" if tname == "class" else "--" + tname
    env_name = "APP_" + dest.upper()

    def run():
        p = _grid_parser(eoe, with_subcommands=channel.startswith("sub-"))
        if channel == "sub-argv":
            return p.parse_args(["run", f"{opt}={value}"])
        if channel == "sub-env":
            return p.parse_env({"APP_SUBCOMMAND": "run", "APP_RUN__" + dest.upper(): value})
        if channel == "sub-config":
            return p.parse_args(["--cfg", _json.dumps({"run": {dest: value}})])
        if channel == "sub-unknown-option":
            return p.parse_args(["run", f"--no_such_option={value}"])
        if channel == "argv":
            return p.parse_args([f"{opt}={value}"])
        if channel == "argv-space":
            return p.parse_args([opt, value])
        if channel == "config":
            return p.parse_args(["--cfg", _json.dumps({dest: value})])
        if channel == "object":
            return p.parse_object({dest: value})
        if channel == "env":
            return p.parse_env({env_name: value})
        if channel == "argv-after-spec":
            return p.parse_args([f"{opt}={_PRIOR_SPEC}", f"{opt}={value}"])
        if channel == "config-after-spec":
            return p.parse_args(["--cfg", _json.dumps({dest: _json.loads(_PRIOR_SPEC)}), "--cfg", _json.dumps({dest: value})])
        if channel == "print-config-skip-default":
            return p.parse_args([f"{opt}={value}", "--print_cfg=skip_default"])
        if channel == "parse_string":
            return p.parse_string(dest + ": " + value)
        if channel == "object-loaded":
            import yaml

            try:
                loaded = yaml.safe_load(value)
            except Exception:
                loaded = value
            return p.parse_object({dest: loaded})
        raise RuntimeError(channel)

    if channel == "object-loaded" and vname == "anchor-self":
        return None  # a cyclic Python object cannot come from a text; not a configuration
    if channel in ("env", "sub-env") and "\x00" in value:
        return None  # not a legal environment value
    kind, detail = _outcome(run, eoe)
    if channel == "print-config-skip-default" and kind in ("wrong-channel", "wrong-exit") and ("SystemExit(0)" in detail or "status=0" in detail):
        kind = "print-exit0"  # status 0 is the documented outcome of --print_config
    S.note(kind)
    if kind not in OK_KINDS and kind != "print-exit0":
        if kind == "escaped:RecursionError" and vname == "anchor-self" and tname == "any":
            return Fail("leak:escaped:RecursionError", case="self-referential-alias-Any", channel=channel)
        return Fail("leak:" + kind, option=tname, value=vname, channel=channel, exit_on_error=eoe, detail=detail)
    return True


QUICK_SKIPPED_CHANNELS = ("argv-space", "sub-env", "sub-config")


def grid(tname, full=True):
    _grid_once("int", "empty", "argv", False)
    channels = GRID_CHANNELS if full else [c for c in GRID_CHANNELS if c not in QUICK_SKIPPED_CHANNELS]

    def harness():
        vname = S.pick("value", sorted(GRID_VALUES))
        channel = S.pick("channel", channels)
        eoe = S.flag("exit_on_error")
        if S.replaying is not None:
            return _grid_once(tname, vname, channel, eoe)
        from crosshair.tracers import NoTracing

        with NoTracing():
            return _grid_once(tname, vname, channel, eoe)

    return harness


# ---- names: malformed option names / config keys x typed options x value forms (solver-enumerated) ------

NAME_BASES = ["int", "list", "dict", "any", "class", "optdc", "union", "tuple", "callable", "cfg", "nosuch", ""]
NAME_SUFFIXES = ["", "+", ".", "..", ".x", ".x.y", ".x+", "+.x", ".+", ".init_args", ".init_args.", ".init_args.nope", ".init_args.p", ".class_path", ".class_path.x",
                 ".dict_kwargs.z", ".help", ".0", ".k", ".k.j", ".__class__", "="]
NAME_PREFIXES = ["--", "-", "--.", "---", "--no_"]
NAME_VALUES = {"none": None, "int": "1", "map": '{"k": 1}', "null": "null", "empty": "", "class": "vf.fixtures.Base", "list": "[1]"}
NAME_CHANNELS = ["argv-eq", "argv-space", "sub-argv", "config-key", "object-key", "sub-config-key", "env-cfg-key"]


def _names_once(base, suffix, prefix, vname, channel, eoe):
    import json as _json

    value = NAME_VALUES[vname]
    bname = "class" if base == "class" else base
    key = ("class_" if base == "class" else base) + suffix
    opt = prefix + bname + suffix

    def run():
        p = _grid_parser(eoe, with_subcommands=channel.startswith("sub-"))
        if channel == "argv-eq":
            return p.parse_args([opt if value is None else f"{opt}={value}"])
        if channel == "argv-space":
            return p.parse_args([opt] if value is None else [opt, value])
        if channel == "sub-argv":
            return p.parse_args(["run", opt if value is None else f"{opt}={value}"])
        try:
            loaded = None if value is None else _json.loads(value)
        except ValueError:
            loaded = value
        if channel == "config-key":
            return p.parse_args(["--cfg", _json.dumps({key: loaded})])
        if channel == "object-key":
            return p.parse_object({key: loaded})
        if channel == "sub-config-key":
            return p.parse_args(["--cfg", _json.dumps({"run": {key: loaded}})])
        if channel == "env-cfg-key":
            return p.parse_env({"APP_CFG": _json.dumps({key: loaded})})
        raise RuntimeError(channel)

    if channel.endswith("-key") and prefix != "--":
        return None  # prefixes are an argv notion
    kind, detail = _outcome(run, eoe)
    if kind in ("wrong-channel", "wrong-exit") and ("SystemExit(0)" in detail or "status=0" in detail) and channel in ("argv-eq", "argv-space", "sub-argv"):
        # status 0 is the documented outcome of a help request: argparse resolves an unambiguous abbreviation ('--class.' -> '--class.help')
        gp = _grid_parser(eoe, with_subcommands=channel.startswith("sub-"))
        if channel == "sub-argv":
            gp = gp._subcommands_action._name_parser_map["run"]
        cands = [a for o, a in gp._option_string_actions.items() if o.startswith(opt)]
        if cands and all("Help" in type(a).__name__ or "PrintConfig" in type(a).__name__ for a in cands):
            S.note("help-exit0")
            return True
    S.note(kind)
    if kind not in OK_KINDS:
        return Fail("leak:" + kind, name=opt if channel.startswith(("argv", "sub-argv")) else key, value=vname, channel=channel, exit_on_error=eoe, detail=detail)
    return True


def names(base, full=False):
    _names_once("int", "", "--", "int", "argv-eq", False)
    prefixes = NAME_PREFIXES if full else NAME_PREFIXES[:3:2]
    values = sorted(NAME_VALUES) if full else ["empty", "int", "map", "none"]
    channels = NAME_CHANNELS if full else [c for c in NAME_CHANNELS if c not in ("argv-space", "sub-config-key")]

    def harness():
        suffix = S.pick("suffix", NAME_SUFFIXES)
        prefix = S.pick("prefix", prefixes)
        vname = S.pick("value", values)
        channel = S.pick("channel", channels)
        eoe = S.flag("exit_on_error")
        if S.replaying is not None:
            return _names_once(base, suffix, prefix, vname, channel, eoe)
        from crosshair.tracers import NoTracing

        with NoTracing():
            return _names_once(base, suffix, prefix, vname, channel, eoe)

    return harness


# ---- main ---------------------------------------------------------------------------------------


def main(rep, tier):
    rep.functions = FUNCTIONS
    rep.rule = ("E-SMT: one evaluation per solver query / witness replay (non-trivial = a witness in a distinct fail branch); E-CH: one path per "
                "(entry point, fault kind, exit_on_error); extra: one evaluation per fixed document-structure case")
    rep.bounds = dict(string_length=32, witnesses_per_tag=6 if tier == "quick" else 20, entry_points=ENTRY_POINTS, faults=FAULTS)
    rep.assumptions = [
        "FAIL_INT / FAIL_FLOAT are candidate regular languages of the strings on which SafeConstructor raises ValueError; validated each run on "
        "solver-generated members and non-members against the real constructor (sampling, not proof)",
        "ints with more than 4300 digits (ValueError from int()) lie outside the length bound; one such input is in the fixed battery",
        "fault injection replaces yaml.load only for texts carrying a marker; a fault kind is reported only through its witness input on the unmodified loader",
        "argv grammars are not symbolic strings: option names / config keys are solver-chosen members of a finite grammar (12 bases x 22 suffixes x 5 prefixes "
        "x 7 value forms x 7 channels x 2 exit modes), run concretely; the fixed battery holds the cases named in the property text",
        "json, jsonnet, toml, omegaconf parser modes are outside",
    ]
    art = ya.capture()
    n, bad = ya.validate_fail_languages(art, 30 if tier == "quick" else 100)
    rep.extra["fail_language_validation"] = dict(words=n, mismatches=len(bad))
    if bad:
        raise Inconclusive(f"Fail language model disagrees with the real constructor: {bad[:4]}")
    s = z3.String("s")
    ids = rx.all_tag_ids(art["loader_table"])
    tl = rx.tag_term(art["loader_table"], s, ids)
    q = rx.Q(rep, cross_check=(tier == "thorough"))
    bound = z3.And(z3.Length(s) <= 32, z3.Not(z3.Contains(s, z3.StringVal("\n"))), z3.Not(z3.Contains(s, z3.StringVal(" "))),
                   z3.Not(z3.Contains(s, z3.StringVal("#"))))
    reported = set()
    for T, fail in ((ya.INT_TAG, ya.FAIL_INT), (ya.FLOAT_TAG, ya.FAIL_FLOAT)):
        short = T.rsplit(":", 1)[1]
        block = []
        for k in range(rep.bounds["witnesses_per_tag"]):
            r, m = q.ask(f"W{k} loader tags s as {short} but the constructor raises ValueError", bound, tl == ids[T], z3.InRe(s, rx.lang(fail, "match")), *block)
            if r == "unsat":
                break
            w = rx.decode(m.eval(s, model_completion=True))
            rep.queries[-1]["result"] = "sat-expected"
            rep.queries[-1]["witness"] = w
            rep.nontrivial += 1
            block.append(s != z3.StringVal(w))
            if k % 2 == 1:  # steer to another prefix
                block.append(z3.SubString(s, 0, 2) != z3.StringVal(w[:2]))
            payload = dict(value=w)
            res = run_native("props.c03", "replay_witness", payload)
            rep.samples.append(dict(witness=w, leaks=res.get("reproduced")))
            if res.get("reproduced"):
                cls = res.get("cls")
                known = rep.match_finding(cls, dict(value=w, detail=res.get("detail", "")))
                if known:
                    rep.known_finding(known, f"witness {w!r}")
                elif cls not in reported:
                    reported.add(cls)
                    rep.violation(f"loader-failing scalar {w!r} escapes: {res.get('detail')}", dict(module="props.c03", func="replay_witness", payload=payload))
    # ---- E-AST: the hand-written pre-loader load_basic, executed symbolically from its source
    from .. import ast2smt as A
    import jsonargparse._loaders_dumpers as ld

    n_, bad_ = A.validate_builtin_models(30 if tier == "quick" else 100)
    if bad_:
        raise Inconclusive(f"model of int()/float() acceptance disagrees with the builtins: {bad_[:4]}")
    se = A.SymExec(ld.load_basic)
    outs = se.run()
    corpus = ["true", " false ", "null", "12", "-3", "1.5", "1e5", "-1e-5", "x", "", "\u00b2", "\u0661\u0662", "1.2.3", "--1", "e", ".", "1e", "-", "1-1", "\u0663.\u0665",
              "-\u00b3", "1_0", "+1", "1.", ".5", "1e+5", "1E5", "-.5", "0x1", " ", "\t7\n", "-", "--", "1-", "e1", "1.e1", "truex", "NULL", "9" * 20]
    mism = []
    for w in corpus:
        k = A.concrete_kind(ld.load_basic, w)
        e = A.encoded_kinds(se, outs, w)
        k = "return:name:not_loaded" if k.startswith("return:name") else k
        if e != {k}:
            mism.append((w, k, sorted(e)))
    rep.extra["ast_encoding"] = dict(function="jsonargparse._loaders_dumpers.load_basic", outcomes=sorted({o.kind for o in outs}), paths=len(outs),
                                     validation_corpus=len(corpus), builtin_model_words=n_, alphabet="ASCII + " + repr(A.representatives()))
    if mism:
        raise Inconclusive(f"AST encoding of load_basic disagrees with the real function on {mism[:4]}")
    raising = [o for o in outs if o.kind.startswith("raise:")]
    if not raising:
        rep.add_query("load_basic: no path of the encoded function ends in an escaping exception (every int()/float() call sits inside try/except ValueError)", "unsat", 0.0, solver="ast-paths")
        rep.nontrivial += 1
    else:
        block = []
        for k in range(6):
            r, m = q.ask(f"E{k} load_basic raises on s (|s|<=32, alphabet ASCII+representatives)", z3.Length(se.param) <= 32, se.domain, z3.Or(*[o.cond() for o in raising]), *block)
            if r == "unsat":
                rep.nontrivial += 1
                break
            w = rx.decode(m.eval(se.param, model_completion=True))
            block.append(se.param != z3.StringVal(w))
            if A.concrete_kind(ld.load_basic, w).startswith("return"):
                continue  # spurious (environment model too coarse); blocked
            payload = dict(value=w, entries=WHOLE_ENTRY_POINTS)
            res = run_native("props.c03", "replay_witness", payload)
            rep.samples.append(dict(load_basic_witness=w, leaks=res.get("reproduced")))
            if res.get("reproduced"):
                cls = res.get("cls")
                known = rep.match_finding(cls, dict(value=w, detail=res.get("detail", "")))
                if known:
                    rep.known_finding(known, f"witness {w!r}")
                elif cls not in reported:
                    reported.add(cls)
                    rep.violation(f"load_basic raises on {w!r} and it escapes: {res.get('detail')}", dict(module="props.c03", func="replay_witness", payload=payload))
    # fixed battery
    for case in _extra_cases():
        res = run_native("props.c03", "replay_extra", dict(case=case))
        rep.evaluations += 1
        rep.samples.append(dict(case=case, leaks=res.get("reproduced")))
        if res.get("reproduced"):
            cls = res.get("cls")
            known = rep.match_finding(cls, dict(case=case))
            if known:
                rep.known_finding(known, case)
            else:
                rep.violation(f"case {case}: {res.get('detail')}", dict(module="props.c03", func="replay_extra", payload=dict(case=case)))
        else:
            rep.nontrivial += 1
    # grid of ill-formed values
    gres = run_jobs([dict(module="c03", func="grid", kwargs=dict(tname=t, full=(tier == "thorough")), timeout=600) for t in GRID_TYPES])
    gfails = absorb(rep, gres, require_tags=("ArgumentError", "exit2", "namespace"))
    rep.bounds["grid"] = dict(options=GRID_TYPES, values=sorted(GRID_VALUES), channels=GRID_CHANNELS, quick_skips_channels=QUICK_SKIPPED_CHANNELS)
    for cls, samples in gfails.items():
        seen = set()
        for smp in samples:
            i = smp["info"]
            key = (i.get("option"), i.get("value"), i.get("case"))
            if key in seen:
                continue
            seen.add(key)
            payload = dict(module="c03", func="grid", kwargs=smp["kwargs"], ordered=smp["values"].get("__order__", []))
            r = run_native("ch", "replay_path", payload)
            if not r.get("reproduced"):
                rep.inconc(f"grid counterexample {cls} {i} did not reproduce natively: {r}")
                continue
            known = rep.match_finding(cls, dict(case=i.get("case", ""), option=i.get("option", ""), value=i.get("value", ""), detail=r.get("detail", "")))
            if known:
                rep.known_finding(known, f"{i.get('option', smp['kwargs']['tname'])} {i.get('value', i.get('case'))} via {i.get('channel')}")
            else:
                rep.violation(f"{cls}: option {i.get('option')} given {i.get('value')!r} through {i.get('channel')}: {r.get('detail')}", dict(module="ch", func="replay_path", payload=payload, cls=cls))
    # grid of malformed option names / config keys
    nres = run_jobs([dict(module="c03", func="names", kwargs=dict(base=b, full=(tier == "thorough")), timeout=900) for b in NAME_BASES])
    nfails = absorb(rep, nres, require_tags=("ArgumentError", "exit2", "namespace"))
    rep.bounds["names"] = dict(bases=NAME_BASES, suffixes=NAME_SUFFIXES, prefixes=NAME_PREFIXES, values=sorted(NAME_VALUES), channels=NAME_CHANNELS)
    for cls, samples in nfails.items():
        seen = set()
        for smp in samples:
            i = smp["info"]
            key = (i.get("name"), i.get("channel").split("-")[0])
            if key in seen:
                continue
            seen.add(key)
            payload = dict(module="c03", func="names", kwargs=smp["kwargs"], ordered=smp["values"].get("__order__", []))
            r = run_native("ch", "replay_path", payload)
            if not r.get("reproduced"):
                rep.inconc(f"names counterexample {cls} {i} did not reproduce natively: {r}")
                continue
            known = rep.match_finding(cls, dict(case=i.get("name", ""), option=i.get("name", ""), value=i.get("value", ""), detail=r.get("detail", "")))
            if known:
                rep.known_finding(known, f"name {i.get('name')!r} via {i.get('channel')}")
            else:
                rep.violation(f"{cls}: option name / key {i.get('name')!r} ({i.get('value')}) through {i.get('channel')}: {r.get('detail')}", dict(module="ch", func="replay_path", payload=payload, cls=cls))
    # fault injection
    results = run_jobs([dict(module="c03", func="inject", kwargs={}, timeout=600)])
    fails = absorb(rep, results, require_tags=("ArgumentError", "exit2"))
    for cls, samples in fails.items():
        seen = set()
        for smp in samples:
            info = smp["info"]
            fault, entry = info.get("fault"), info.get("entry")
            if (fault, entry) in seen:
                continue
            seen.add((fault, entry))
            payload = dict(value=WITNESS[fault], entries=[entry])
            res = run_native("props.c03", "replay_witness", payload)
            if not res.get("reproduced"):
                rep.notes.append(f"injected fault {fault} at {entry} leaks ({cls}) but its witness {WITNESS[fault]!r} does not trigger it on the real loader: not reported")
                continue
            rcls = res.get("cls")
            known = rep.match_finding(rcls, dict(value=WITNESS[fault], detail=res.get("detail", "")))
            if known:
                rep.known_finding(known, f"fault {fault} at {entry}")
            elif rcls not in reported:
                reported.add(rcls)
                rep.violation(f"fault {fault} at {entry} escapes: {res.get('detail')}", dict(module="props.c03", func="replay_witness", payload=payload))
