"""C15 — a linked argument always equals the function of its sources.

E-CH/api. Link shapes: plain->plain, two sources with a compute function, group-valued source
into a dict-typed target, plain source into init_args of a class argument and into the items of
a list of classes. Symbolic: source values, the value supplied for the target itself (absent |
int) directly and through the enclosing class spec, the channel that sets each source.
"""
import io
import json
import os
import shutil
import tempfile

from ..ch import S, Fail, absorb, run_jobs, untraced
from ..common import run_native
from ..stubs import FORMAT_STUBS_NOTE, TEXT_STUB_NOTE, capture_dump, install_format_stubs

FUNCTIONS = [
    "jsonargparse._link_arguments.ActionLink.__init__/_initial_input_checks/__call__/apply_parsing_links/set_target_value/strip_link_target_keys",
    "jsonargparse._core.ArgumentParser.link_arguments/parse_object/parse_args/parse_env/_parse_common/dump/save",
]

SHAPES = ["plain", "compute2", "group_to_dict", "init_arg", "list_items", "nested_target", "two_links", "compute_dict_param", "class_source"]


def _fn2(a, c):
    return a + 2 * c


def _sum_dict(g: dict):
    return g["x"] + 10 * g["y"]


def _build(shape):
    from typing import Dict, List

    from jsonargparse import ArgumentParser

    from ..fixtures import Base

    p = ArgumentParser(exit_on_error=False, prog="app")
    p.add_argument("--a", type=int, default=1)
    p.add_argument("--c", type=int, default=2)
    if shape == "plain":
        p.add_argument("--b", type=int)  # no default: would be required without the link
        p.link_arguments("a", "b")
    elif shape == "compute2":
        p.add_argument("--d", type=int, required=True)
        p.link_arguments(("a", "c"), "d", compute_fn=_fn2)
    elif shape == "group_to_dict":
        p.add_argument("--g.x", type=int, default=3)
        p.add_argument("--g.y", type=int, default=4)
        p.add_argument("--dt", type=Dict[str, int])
        p.link_arguments("g", "dt")
    elif shape == "nested_target":
        p.add_argument("--g.t", type=int)
        p.add_argument("--g.u", type=int, default=8)
        p.link_arguments("a", "g.t")
    elif shape == "two_links":
        p.add_argument("--b", type=int)
        p.add_argument("--d", type=int)
        p.link_arguments("a", "b")
        p.link_arguments(("a", "c"), "d", compute_fn=_fn2)
    elif shape == "compute_dict_param":
        p.add_argument("--g.x", type=int, default=3)
        p.add_argument("--g.y", type=int, default=4)
        p.add_argument("--d", type=int)
        p.link_arguments("g", "d", compute_fn=_sum_dict)
    elif shape == "class_source":
        from typing import Optional

        from ..fixtures import Sub1

        p.add_argument("--m", type=Sub1, default=None)  # Sub1(w=1, z=0.5, k: Optional[int]=4)
        p.add_argument("--b", type=Optional[int])
        p.link_arguments("m.init_args.k", "b")  # the source is an init_arg of a class-typed argument; its value may be None
    elif shape == "init_arg":
        p.add_argument("--m", type=Base, default=None)
        p.link_arguments("a", "m.init_args.w")
    elif shape == "list_items":
        p.add_argument("--lm", type=List[Base], default=[])
        p.link_arguments("a", "lm.init_args.w")
    return p


def _expected(shape, cfg):
    if shape == "plain":
        return [("b", cfg["a"])]
    if shape == "compute2":
        return [("d", _fn2(cfg["a"], cfg["c"]))]
    if shape == "group_to_dict":
        return [("dt", {"x": cfg["g.x"], "y": cfg["g.y"]})]
    if shape == "nested_target":
        return [("g.t", cfg["a"])]
    if shape == "two_links":
        return [("b", cfg["a"]), ("d", _fn2(cfg["a"], cfg["c"]))]
    if shape == "compute_dict_param":
        return [("d", cfg["g.x"] + 10 * cfg["g.y"])]
    if shape == "class_source":
        return [("b", cfg["m.init_args.k"])] if cfg.get("m") is not None else []
    if shape == "init_arg":
        return [("m.init_args.w", cfg["a"])] if cfg.get("m") is not None else []
    return [(("lm", i, "init_args.w"), cfg["a"]) for i in range(len(cfg["lm"])) if not cfg["lm"][i]["class_path"].endswith("NoW")]


def _get(cfg, key):
    if isinstance(key, tuple):
        return cfg[key[0]][key[1]][key[2]]
    return cfg[key]


def _has_target(shape, d):
    """Does the dumped dict d still hold a link target?"""
    if shape == "plain":
        return "b" in d
    if shape == "compute2":
        return "d" in d
    if shape == "group_to_dict":
        return "dt" in d
    if shape == "nested_target":
        return "t" in (d.get("g") or {})
    if shape == "two_links":
        return "b" in d or "d" in d
    if shape == "compute_dict_param":
        return "d" in d
    if shape == "class_source":
        return "b" in d
    if shape == "init_arg":
        return isinstance(d.get("m"), dict) and "w" in (d["m"].get("init_args") or {})
    return any("w" in (it.get("init_args") or {}) for it in d.get("lm", []))


def links(shape, shard=None, nshards=1):
    from jsonargparse import ArgumentError

    install_format_stubs()
    parser = _build(shape)
    parser.parse_object({})

    def harness():
        obj = {}
        channel_a = S.pick("a.channel", ["object", "default"])
        if channel_a == "object":
            obj["a"] = S.int("a")
        if S.flag("c.given"):
            obj["c"] = S.int("c")
        if shape in ("group_to_dict", "compute_dict_param"):
            if S.flag("g.x.given"):
                obj["g"] = {"x": S.int("g.x")}
        given_target = S.flag("target.given")
        tval = S.int("target") if given_target else None
        if shape == "class_source":
            kk = S.choice("m.k", 4)  # m absent | k left at its default | k an int | k None
            if kk >= 1:
                spec = dict(class_path="vf.fixtures.Sub1")
                if kk == 2:
                    spec["init_args"] = dict(k=S.int("k"))
                elif kk == 3:
                    spec["init_args"] = dict(k=None)
                obj["m"] = spec
            if given_target:
                obj["b"] = tval
        elif shape == "init_arg":
            k = S.choice("m.class", 3)
            if k > 0:
                spec = dict(class_path=("vf.fixtures.Base", "vf.fixtures.Sub1")[k - 1])
                if given_target:
                    spec["init_args"] = dict(w=tval)  # target supplied through the enclosing class spec
                obj["m"] = spec
        elif shape == "list_items":
            n = S.choice("lm.len", 3)
            items = []
            for i in range(n):
                ci = S.choice(f"lm{i}.class", 3)  # the third class does not take the linked parameter
                spec = dict(class_path=("vf.fixtures.Base", "vf.fixtures.Sub1", "vf.fixtures.NoW")[ci])
                if given_target and i == 0 and ci != 2:
                    spec["init_args"] = dict(w=tval)
                items.append(spec)
            obj["lm"] = items
        elif shape == "class_source":
            pass
        elif given_target and shape == "nested_target":
            obj.setdefault("g", {})["t"] = tval
        elif given_target:
            key = {"plain": "b", "compute2": "d", "group_to_dict": "dt", "two_links": "d", "compute_dict_param": "d"}[shape]
            obj[key] = tval if shape != "group_to_dict" else {"x": tval}
        if shard is not None and S.shard(nshards) != shard:
            return None
        try:
            cfg = parser.parse_object(obj)
        except ArgumentError:
            S.note("rejected")
            return None
        S.note("accepted")
        exp = _expected(shape, cfg)
        for key, val in exp:
            try:
                got = _get(cfg, key)
            except (KeyError, IndexError):
                return Fail("link:target-missing-after-parse", shape=shape, key=str(key))
            if got != val or (got is None) != (val is None):
                return Fail("link:target-differs-from-function-of-sources", shape=shape, key=str(key), target_given=given_target)
        S.note(f"targets={len(exp)}")
        # dump: no target key; re-parsing reconstructs it
        d = capture_dump(parser, cfg, skip_none=False)
        if _has_target(shape, d):
            return Fail("link:target-appears-in-dump", shape=shape)
        try:
            cfg2 = parser.parse_object(d)
        except ArgumentError as ex:
            return Fail("link:dump-does-not-reparse", shape=shape, msg=str(ex)[:200])
        for key, val in exp:
            if _get(cfg2, key) != val:
                return Fail("link:target-not-reconstructed-by-reparse", shape=shape, key=str(key))
        return True

    return harness


# ---- links that live only in a sub-parser (the root parser has none) ---------------------------------------------------


def _build_sub():
    from jsonargparse import ActionConfigFile, ArgumentParser

    root = ArgumentParser(exit_on_error=False, prog="app")
    root.add_argument("--cfg", action=ActionConfigFile)
    root.add_argument("--g", type=int, default=0)
    fit = ArgumentParser(exit_on_error=False)
    fit.add_argument("--a", type=int, default=1)
    fit.add_argument("--b", type=int)
    fit.link_arguments("a", "b")
    test = ArgumentParser(exit_on_error=False)
    test.add_argument("--y", type=int, default=2)
    sc = root.add_subcommands()
    sc.add_subcommand("fit", fit)
    sc.add_subcommand("test", test)
    return root


def _sub_once(channel, a, target, named):
    import json as _json

    from jsonargparse import ArgumentError

    root = _build_sub()
    sec = {}
    if a is not None:
        sec["a"] = a
    if target is not None:
        sec["b"] = target
    obj = {"fit": sec} if sec else {}
    if named or not sec:
        obj["subcommand"] = "fit"
    try:
        if channel == "object":
            cfg = root.parse_object(obj)
        elif channel == "parse_string":
            cfg = root.parse_string(_json.dumps(obj))
        elif channel == "cfg_text":
            cfg = root.parse_args(["--cfg", _json.dumps(obj)])
        elif channel == "cfg_text_then_name":
            cfg = root.parse_args(["--cfg", _json.dumps(obj), "fit"])
        elif channel == "argv":
            cfg = root.parse_args(["fit"] + ([f"--a={a}"] if a is not None else []) + ([f"--b={target}"] if target is not None else []))
        else:
            raise RuntimeError(channel)
    except ArgumentError:
        return None
    want = a if a is not None else 1
    if "b" not in cfg.fit:
        return Fail("sublink:target-missing-after-parse", channel=channel, a=a, target=target)
    if cfg.fit.b != want:
        return Fail("sublink:target-differs-from-source", channel=channel, a=a, target=target, got=cfg.fit.b)
    text = root.dump(cfg)
    if "b:" in text:
        return Fail("sublink:target-appears-in-dump", channel=channel, text=text)
    back = root.parse_string(text)
    if back.fit.get("b") != want:
        return Fail("sublink:target-not-reconstructed-by-reparse", channel=channel, a=a, target=target, got=back.fit.get("b"))
    return True


def sub_links():
    _sub_once("object", 5, None, True)

    def harness():
        channel = S.pick("channel", ["object", "parse_string", "cfg_text", "cfg_text_then_name", "argv"])
        a = S.pick("a", [None, 5, 1])
        target = S.pick("target", [None, 99, 5])
        named = S.flag("subcommand-named")
        if S.replaying is not None:
            res = _sub_once(channel, a, target, named)
        else:
            from crosshair.tracers import NoTracing

            with NoTracing():
                res = _sub_once(channel, a, target, named)
        S.note("accepted" if res is not None else "rejected")
        if res is True:
            S.note("targets=1")
        return res

    return harness


# ---- consecutive parses on one parser with sources that are ==-equal but of different type ----------------------------

_EQ_MENU = [1, 1.0, True, 0, 0.0, False, 2, [1], [1.0], [True]]


def _typed_repr(v):
    return f"{type(v).__name__}:{v!r}"


def _repeat_once(i, j, channel):
    from typing import Any

    from jsonargparse import ArgumentParser

    p = ArgumentParser(exit_on_error=False)
    p.add_argument("--a", type=Any, default=None)
    p.add_argument("--t", type=str)
    p.link_arguments("a", "t", compute_fn=_typed_repr)
    v1, v2 = _EQ_MENU[i], _EQ_MENU[j]
    import json as _json

    def parse(v):
        if channel == "object":
            return p.parse_object({"a": v})
        if channel == "parse_string":
            return p.parse_string(_json.dumps({"a": v}))
        return p.parse_args(["--a=" + _json.dumps(v)])

    parse(v1)
    cfg = parse(v2)
    want = _typed_repr(cfg.a)
    if cfg.t != want:
        return Fail("link:target-differs-from-function-of-sources", shape="repeat", first=_typed_repr(v1), second=_typed_repr(v2), target=cfg.t, want=want, channel=channel)
    back = p.parse_string(p.dump(cfg))
    if back.t != _typed_repr(back.a):
        return Fail("link:target-not-reconstructed-by-reparse", shape="repeat", second=_typed_repr(v2), target=back.t)
    return True


def repeat():
    _repeat_once(0, 1, "object")

    def harness():
        i = S.choice("first", len(_EQ_MENU))
        j = S.choice("second", len(_EQ_MENU))
        channel = S.pick("channel", ["object", "parse_string", "argv"])
        S.note("accepted")
        with untraced():
            res = _repeat_once(i, j, channel)
        if res is True:
            S.note("targets=1")
        return res

    return harness


def static_checks():
    """Concrete API facts of the statement that have no symbolic dimension; run once natively."""
    from typing import List

    from jsonargparse import ArgumentError, ArgumentParser, Namespace

    from ..fixtures import Base

    bad = []
    for shape, arg in (("plain", "--b=5"), ("compute2", "--d=5"), ("group_to_dict", '--dt={"x": 1}')):
        p = _build(shape)
        try:
            p.parse_args([arg])
            bad.append(f"{shape}: option of a plain link target accepted ({arg})")
        except ArgumentError:
            pass
        # target is not required
        try:
            p.parse_args([])
        except ArgumentError as ex:
            bad.append(f"{shape}: parse without the target fails: {str(ex)[:80]}")
        # sources from env and argv
        try:
            cfg = p.parse_env({"APP_A": "7", "APP_C": "5"})
            for key, val in _expected(shape, cfg):
                if _get(cfg, key) != val:
                    bad.append(f"{shape}: env sources: target {key} != function of sources")
            cfg = p.parse_args(["--a=9", "--c=4"])
            for key, val in _expected(shape, cfg):
                if _get(cfg, key) != val:
                    bad.append(f"{shape}: argv sources: target {key} != function of sources")
        except ArgumentError as ex:
            bad.append(f"{shape}: {str(ex)[:80]}")
    # link creation checks: chains and double targets
    p = ArgumentParser(exit_on_error=False)
    for n in "abcd":
        p.add_argument("--" + n, type=int, default=0)
    p.link_arguments("a", "b")
    for src, tgt, why in (("b", "c", "source is a target of another link"), ("c", "b", "double target"), ("d", "a", "target is a source of another link")):
        try:
            p.link_arguments(src, tgt)
            bad.append(f"link_arguments({src!r}, {tgt!r}) accepted although {why}")
        except ValueError:
            pass
    # a chain through a group: one link feeds a member of group g, another takes the whole group g as its source. Either the second
    # link is refused when added, or - whatever the order in which the links were added - the target equals the final group.
    from typing import Dict

    for order in ((0, 1), (1, 0)):
        p = ArgumentParser(exit_on_error=False)
        p.add_argument("--a", type=int, default=1)
        p.add_argument("--g.x", type=int, default=3)
        p.add_argument("--g.y", type=int, default=2)
        p.add_argument("--d", type=Dict[str, int])
        decl = [("g", "d"), ("a", "g.x")]
        refused = False
        for i in order:
            try:
                p.link_arguments(*decl[i])
            except ValueError:
                refused = True
        if not refused:
            cfg = p.parse_args(["--a=7"])
            if cfg.d != cfg.g.as_dict() or cfg.g.x != 7:
                bad.append(f"chain through group g accepted (links added in order {[decl[i] for i in order]}) and d == {cfg.d} while g == {cfg.g.as_dict()}")
    # save: no target key in single- and multi-file mode, saved file re-parses to the target
    for shape in ("plain", "init_arg", "list_items"):
        p = _build(shape)
        obj = {"a": 6}
        if shape == "init_arg":
            obj["m"] = {"class_path": "vf.fixtures.Base"}
        if shape == "list_items":
            obj["lm"] = [{"class_path": "vf.fixtures.Base"}]
        cfg = p.parse_object(obj)
        d = tempfile.mkdtemp(prefix="c15_")
        try:
            for multifile in (False, True):
                path = os.path.join(d, f"out_{multifile}.json")
                p.save(cfg, path, format="json", multifile=multifile, skip_none=False)
                with open(path) as f:
                    saved = json.load(f)
                if _has_target(shape, saved):
                    bad.append(f"{shape}: link target present in the file written by save(multifile={multifile})")
                back = p.parse_path(path)
                for key, val in _expected(shape, cfg):
                    if _get(back, key) != val:
                        bad.append(f"{shape}: saved file does not reconstruct the target (multifile={multifile})")
        finally:
            shutil.rmtree(d, ignore_errors=True)
    # a link target inside a section that multi-file save writes to its own sub-file
    from jsonargparse import ArgumentParser as AP

    d = tempfile.mkdtemp(prefix="c15_")
    try:
        src, out = os.path.join(d, "src"), os.path.join(d, "out")
        os.makedirs(src)
        os.makedirs(out)
        with open(os.path.join(src, "m.yaml"), "w") as f:
            f.write("class_path: vf.fixtures.Sub1\ninit_args:\n  z: 2.5\n")
        with open(os.path.join(src, "main.yaml"), "w") as f:
            f.write("a: 6\nm: m.yaml\n")
        p = AP(exit_on_error=False)
        p.add_argument("--a", type=int, default=1)
        p.add_argument("--m", type=Base, default=None, enable_path=True)
        p.link_arguments("a", "m.init_args.w")
        cfg = p.parse_path(os.path.join(src, "main.yaml"))
        if cfg["m.init_args.w"] != 6:
            bad.append("sub-file section: link target not applied")
        p.save(cfg, os.path.join(out, "main.yaml"), multifile=True)
        import yaml

        with open(os.path.join(out, "m.yaml")) as f:
            sub = yaml.safe_load(f)
        if "w" in (sub.get("init_args") or {}):
            bad.append("sub-file section: link target present in the sub-file written by save(multifile=True)")
        back = p.parse_path(os.path.join(out, "main.yaml"))
        if back["m.init_args.w"] != 6 or back["m.init_args.z"] != 2.5:
            bad.append("sub-file section: saved files do not reconstruct the configuration")
    finally:
        shutil.rmtree(d, ignore_errors=True)
    return bad


def replay_static(payload):
    from ..ch import native

    def run():
        bad = static_checks()
        bad = [b for b in bad if payload.get("match", "") in b]
        if bad:
            return Fail("static:" + bad[0][:60], all=bad)
        return True

    return native(run)


def main(rep, tier):
    rep.functions = FUNCTIONS
    rep.stubs = [FORMAT_STUBS_NOTE, TEXT_STUB_NOTE]
    rep.rule = ("one path per (link shape, source channel, target-supplied bit, class choice, list length) x branch of the real code on the symbolic source/target ints; "
                "non-trivial = parse accepted and every target compared with the function of the final source values")
    rep.bounds = dict(link_shapes=SHAPES, list_length="<=2", static_cases="option of a plain target rejected; target not required; env/argv sources; chains and double targets rejected; save single/multi-file")
    rep.assumptions = [
        "sources set through the object channel (symbolic) or left at their default; environment and argv sources are exercised with concrete values in the static part",
        "a value supplied for the target itself may be rejected or overwritten; if the parse succeeds the target must equal the function of the sources",
        "links applied on instantiation belong to C16",
    ]
    jobs = []
    for s_ in SHAPES:
        n = {"list_items": 10, "init_arg": 3}.get(s_, 1)
        for sh in range(n):
            kw = dict(shape=s_)
            if n > 1:
                kw.update(shard=sh, nshards=n)
            jobs.append(dict(module="c15", func="links", kwargs=kw, timeout=300 if tier == "quick" else 900))
    jobs.append(dict(module="c15", func="sub_links", kwargs={}, timeout=300))
    jobs.append(dict(module="c15", func="repeat", kwargs={}, timeout=300))
    results = run_jobs(jobs)
    fails = absorb(rep, results, require_tags=("accepted", "targets=1", "targets=2"))
    rep.bounds["link_shapes"] = SHAPES
    # static part
    bad = static_checks_native()
    rep.evaluations += 1
    rep.extra["static_checks"] = bad or "all hold"
    for b in bad:
        known = rep.match_finding("static", dict(text=b))
        if known:
            rep.known_finding(known, b)
        else:
            rep.violation(f"static check failed: {b}", dict(module="props.c15", func="replay_static", payload=dict(match=b[:40])))
    groups = {}
    for cls, samples in fails.items():
        for smp in samples:
            groups.setdefault((cls, smp["kwargs"].get("shape", smp["harness"])), []).append(smp)
    for (cls, shape), samples in groups.items():
        reported = False
        for smp in samples:
            payload = dict(module="c15", func=smp["harness"], kwargs=smp["kwargs"], ordered=smp["values"].get("__order__", []))
            r = run_native("ch", "replay_path", payload)
            vals = dict(shape=shape, info=json.dumps(smp["info"], default=repr))
            if not r.get("reproduced"):
                rep.inconc(f"counterexample {cls} ({shape}) did not reproduce natively: {smp['info']} -> {r}")
                continue
            known = rep.match_finding(cls, vals)
            if known:
                rep.known_finding(known, f"{cls} {shape}")
            elif not reported:
                rep.violation(f"{cls} ({shape}): {smp['info']} :: {r.get('detail')}", dict(module="ch", func="replay_path", payload=payload, cls=cls))
                reported = True


def static_checks_native():
    r = run_native("props.c15", "static_json", {})
    return r.get("bad", [])


def static_json(payload):
    return dict(bad=static_checks())
