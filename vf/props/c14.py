"""C14 — a class_path is checked against the declared type and built from its config.

E-CH/api. An importable class family (base, subclasses adding/overriding parameters, an unrelated
class, an abstract base with a concrete subclass, a **kwargs class, a callable returning the base,
a non-class object, a missing module; a holder with nested class-typed and List-of-class
parameters). Symbolic: which class the spec names, which spec form, which init_args are given,
their kinds and values, an unknown init_arg, dict_kwargs.
"""
import json

from ..ch import S, Fail, absorb, run_jobs, untraced
from ..common import run_native
from ..stubs import FORMAT_STUBS_NOTE, install_format_stubs

FUNCTIONS = [
    "jsonargparse._typehints.adapt_typehints (subclass branch), adapt_class_type, subclass_spec_as_namespace, resolve_class_path_by_name, discard_init_args_on_class_path_change, ActionTypeHint.get_class_parser",
    "jsonargparse._core.ArgumentParser.parse_object/parse_args/instantiate_classes; jsonargparse._util.import_object/get_import_path",
]

# name -> (class_path, is acceptable for Base, parameters: name -> kind)
FAMILY = [
    ("Base", "vf.fixtures.Base", True, {"w": "int"}),
    ("Sub1", "vf.fixtures.Sub1", True, {"w": "int", "z": "float", "k": "optint"}),
    ("Sub2", "vf.fixtures.Sub2", True, {"w": "int", "items": "optlist", "flag": "bool"}),
    ("Kw", "vf.fixtures.Kw", True, {"w": "int"}),
    ("Leaf", "vf.fixtures.Leaf", True, {"w": "int", "depth": "int"}),  # concrete class below an abstract intermediate
    ("Other", "vf.fixtures.Other", False, {"q": "int"}),
    ("make_base", "vf.fixtures.make_base", True, {"w": "int"}),
    ("NOT_A_CLASS", "vf.fixtures.NOT_A_CLASS", False, {}),
    ("missing", "no.such.module.Cls", False, {}),
]
FORMS = ["explicit", "path-string", "name-string", "argv-dotted", "init-args-on-default", "explicit-two-steps"]
VALUE_KINDS = ["int", "bool", "none", "str", "float"]
QUICK_KINDS = ["int", "bool", "none", "str"]


def _value(name, kind):
    if kind == "int":
        return S.int(name)
    if kind == "bool":
        return S.bool(name)
    if kind == "none":
        return None
    if kind == "str":
        return "bad"
    return S.float(name)


def _valid(kind, vk):
    """Is a value of kind vk valid for a parameter of kind `kind`? (structural: int excludes bool, float takes int;
    None means 'not set' for the parser at any position and is therefore never a reason to reject)"""
    if vk == "none":
        return True
    if kind == "int":
        return vk == "int"
    if kind == "float":
        return vk in ("int", "float")
    if kind == "optint":
        return vk in ("int", "none")
    if kind == "bool":
        return vk == "bool"
    if kind == "optlist":
        return vk == "none"
    raise ValueError(kind)


def _parser(default=None):
    from jsonargparse import ArgumentParser

    from ..fixtures import Base

    p = ArgumentParser(exit_on_error=False)
    p.add_argument("--x", type=Base, default=default)
    p.add_argument("--n", type=int, default=0)
    return p


def specs(form, shard=None, nshards=1, kinds=None):
    from jsonargparse import ArgumentError, Namespace, lazy_instance

    from .. import fixtures

    install_format_stubs()
    parser = _parser()
    parser_d = _parser(lazy_instance(fixtures.Sub1, w=7))
    parser.parse_object({"x": {"class_path": "vf.fixtures.Sub1"}})

    def harness():
        ci = S.choice("class", len(FAMILY))
        cname, cpath, ok_class, params = FAMILY[ci]
        init_args, all_valid = {}, True
        for pname, pkind in params.items():
            if S.flag(f"{pname}.given"):
                vk = S.pick(f"{pname}.kind", kinds or VALUE_KINDS)
                init_args[pname] = _value(pname, vk)
                all_valid = all_valid and _valid(pkind, vk)
        unknown = S.flag("unknown_init_arg") if params else False
        if unknown:
            init_args["zz"] = 1
        dict_kwargs = None
        if cname == "Kw" and S.flag("dict_kwargs"):
            dict_kwargs = {"extra": S.int("extra")}
        if shard is not None and S.shard(nshards) != shard:
            return None
        # ---- expectation
        exp_accept = ok_class and all_valid and not unknown  # (extra names for a **kwargs class travel in dict_kwargs, not in init_args)
        if form == "name-string" and cname in ("make_base", "NOT_A_CLASS", "missing", "Other"):
            exp_accept = False  # short names resolve subclasses of the declared type only
        # ---- feed the spec in the chosen form
        p = parser
        try:
            if form == "explicit":
                spec = {"class_path": cpath}
                if init_args:
                    spec["init_args"] = dict(init_args)
                if dict_kwargs:
                    spec["dict_kwargs"] = dict(dict_kwargs)
                cfg = p.parse_object({"x": spec})
            elif form in ("path-string", "name-string"):
                if init_args or dict_kwargs:
                    return None
                cfg = p.parse_object({"x": cpath if form == "path-string" else cname})
            elif form == "explicit-two-steps":
                base = p.parse_object({"x": {"class_path": cpath}})
                cfg = p.parse_object({"x": {"init_args": dict(init_args)}} if init_args else {}, cfg_base=base)
                if dict_kwargs:
                    return None
            elif form == "init-args-on-default":
                p = parser_d
                if cname != "Sub1" or dict_kwargs:
                    return None
                cfg = p.parse_object({"x": {"init_args": dict(init_args)}} if init_args else {})
            elif form == "argv-dotted":
                if dict_kwargs or any(not isinstance(v, int) or isinstance(v, bool) for v in init_args.values()):
                    return None
                return None  # handled by the concrete harness argv_forms (argv needs concrete text)
        except ArgumentError:
            S.note("rejected")
            if exp_accept:
                return Fail("class:valid-spec-rejected", klass=cname, form=form, given=sorted(init_args), unknown=unknown)
            return True
        S.note("accepted")
        if not exp_accept:
            return Fail("class:invalid-spec-accepted", klass=cname, form=form, given=sorted(init_args), unknown=unknown, ok_class=ok_class, all_valid=all_valid)
        x = cfg.x
        if cname == "make_base":
            return True  # a callable returning the base: accepted; what it builds is its own business
        if not isinstance(x, Namespace) or x.class_path != cpath:
            return Fail("class:class_path-not-normalised", klass=cname, form=form)
        # instantiate: exactly the named class, once, with exactly the configured arguments
        del fixtures.LOG[:]
        init = p.instantiate_classes(cfg)
        obj = init.x
        cls = getattr(fixtures, cname)
        if type(obj) is not cls:
            return Fail("class:instance-of-wrong-class", klass=cname, got=type(obj).__name__)
        calls = [c for c in fixtures.LOG if c[0] == cname]
        if len(fixtures.LOG) != 1 or len(calls) != 1:
            return Fail("class:not-constructed-exactly-once", klass=cname, log=[c[0] for c in fixtures.LOG])
        kwargs = calls[0][1]
        configured = dict((x.get("init_args") or Namespace()).as_dict())
        configured.update(x.get("dict_kwargs") or {})
        if sorted(kwargs) != sorted(configured) or any(not _veq(kwargs[k], configured[k]) for k in kwargs):
            return Fail("class:constructed-with-other-arguments", klass=cname, got=sorted(kwargs), configured=sorted(configured))
        for k, v in init_args.items():
            if k in kwargs and not _veq(kwargs[k], v if not (params.get(k) == "float" and isinstance(v, int)) else float(v)):
                return Fail("class:given-init-arg-not-passed", klass=cname, arg=k)
        if dict_kwargs and not _veq(kwargs.get("extra"), dict_kwargs["extra"]):
            return Fail("class:dict_kwargs-not-passed", klass=cname)
        return True

    return harness


CALLABLES = [("make_base", "Base"), ("make_sub1", "Sub1"), ("make_object", "object"), ("make_other", "Other")]
DECLARED = ["Base", "Sub1", "Sub2", "Other"]


def callables():
    """'... or a callable returning one': a class_path naming a function is accepted exactly when its annotated return type
    is the declared class or a subclass of it, whatever the relation is (same / strict subclass / strict superclass / unrelated);
    an accepted one builds an instance of the declared class."""
    from jsonargparse import ArgumentError, ArgumentParser

    from .. import fixtures

    install_format_stubs()
    parsers = {}
    for d in DECLARED:
        parsers[d] = ArgumentParser(exit_on_error=False)
        parsers[d].add_argument("--x", type=getattr(fixtures, d), default=None)

    def harness():
        d = S.pick("declared", DECLARED)
        fname, rname = S.pick("callable", CALLABLES)
        via = S.pick("via", ["object", "argv"])
        given = S.flag("arg.given")
        w = S.int("w") if via == "object" else S.pick("w", [3, 8])
        arg = "q" if fname == "make_other" else "w"
        declared = getattr(fixtures, d)
        ret = object if rname == "object" else getattr(fixtures, rname)
        exp_accept = issubclass(ret, declared)
        p = parsers[d]
        try:
            if via == "object":
                spec = {"class_path": f"vf.fixtures.{fname}"}
                if given:
                    spec["init_args"] = {arg: w}
                cfg = p.parse_object({"x": spec})
            else:
                argv = [f"--x=vf.fixtures.{fname}"] + ([f"--x.{arg}={w}"] if given else [])
                if S.replaying is not None:
                    cfg = p.parse_args(argv)
                else:
                    from crosshair.tracers import NoTracing

                    with NoTracing():
                        cfg = p.parse_args(argv)
        except ArgumentError:
            S.note("rejected")
            if exp_accept:
                return Fail("callable:valid-spec-rejected", declared=d, callable=fname, via=via)
            return True
        S.note("accepted")
        if not exp_accept:
            return Fail("callable:invalid-spec-accepted", declared=d, callable=fname, via=via)
        obj = p.instantiate_classes(cfg).x
        if not isinstance(obj, declared):
            return Fail("callable:built-object-is-not-of-the-declared-class", declared=d, callable=fname, got=type(obj).__name__)
        if given and getattr(obj, arg, None) != w:
            return Fail("callable:given-init-arg-not-passed", declared=d, callable=fname)
        return True

    return harness


def _veq(a, b):
    if type(a) is not type(b) and not (isinstance(a, int) and isinstance(b, int) and not isinstance(a, bool) and not isinstance(b, bool)):
        return False
    return a == b


def short_forms():
    """Short notations denote the same configuration as the explicit form (concrete; the solver picks class, form and value)."""
    from jsonargparse import ArgumentError, lazy_instance

    from .. import fixtures

    install_format_stubs()

    def run(ci, form, w):
        cname, cpath, ok_class, params = FAMILY[ci]
        p = _parser()
        explicit = p.parse_object({"x": {"class_path": cpath, "init_args": {"w": w}}})
        if form == "argv-name-then-dotted":
            cfg = p.parse_args([f"--x={cname}", f"--x.w={w}"])
        elif form == "argv-path-then-init_args":
            cfg = p.parse_args([f"--x={cpath}", f"--x.init_args.w={w}"])
        elif form == "argv-json":
            cfg = p.parse_args(["--x=" + json.dumps({"class_path": cname, "init_args": {"w": w}})])
        elif form == "object-name":
            cfg = p.parse_object({"x": {"class_path": cname, "init_args": {"w": w}}})
        elif form == "object-two-steps":
            cfg = p.parse_object({"x": {"init_args": {"w": w}}}, cfg_base=p.parse_object({"x": cname}))
        elif form == "default-then-flat-init-args":
            pd = _parser(lazy_instance(getattr(fixtures, cname)))
            explicit = pd.parse_object({"x": {"class_path": cpath, "init_args": {"w": w}}})
            cfg = pd.parse_args([f"--x.w={w}"])
        else:
            raise RuntimeError(form)
        from ..shapes import same

        r = same(explicit, cfg)
        if r:
            return Fail("class:short-form-differs-from-explicit-form", klass=cname, form=form, where=r)
        return True

    forms = ["argv-name-then-dotted", "argv-path-then-init_args", "argv-json", "object-name", "object-two-steps", "default-then-flat-init-args"]
    run(1, forms[0], 3)

    def harness():
        ci = S.choice("class", 5)  # Base, Sub1, Sub2, Kw, Leaf
        form = S.pick("form", forms)
        w = S.pick("w", [0, 1, 7, -3])
        S.note("accepted")
        if S.replaying is not None:
            return run(ci, form, w)
        from crosshair.tracers import NoTracing

        with NoTracing():
            return run(ci, form, w)

    return harness


def nested(shard=None, nshards=1, max_many=2):
    """Nested class arguments are built first and passed as objects; List[Base] members too; abstract base + concrete subclass."""
    from jsonargparse import ArgumentError, ArgumentParser, Namespace

    from .. import fixtures

    install_format_stubs()
    p = ArgumentParser(exit_on_error=False)
    p.add_argument("--h", type=fixtures.Holder, default=None)
    p.add_argument("--ab", type=fixtures.AbstractB, default=None)
    p.parse_object({})

    def harness():
        inner_i = S.choice("inner.class", 3)
        inner = {"class_path": FAMILY[inner_i][1], "init_args": {"w": S.int("inner.w")}}
        n_many = S.choice("many.len", max_many + 1)
        many = [{"class_path": FAMILY[(inner_i + 1 + i) % 3][1], "init_args": {"w": S.int(f"many{i}.w")}} for i in range(n_many)]
        ia = {"inner": inner, "n": S.int("n")}
        if n_many:
            ia["many"] = many
        obj = {"h": {"class_path": "vf.fixtures.Holder", "init_args": ia}}
        ab_kind = S.choice("ab", 3)
        if shard is not None and S.shard(nshards) != shard:
            return None
        if ab_kind == 1:
            obj["ab"] = {"class_path": "vf.fixtures.Concrete", "init_args": {"a": S.int("ab.a")}}
        elif ab_kind == 2:
            obj["ab"] = {"class_path": "vf.fixtures.AbstractB"}
        try:
            cfg = p.parse_object(obj)
        except ArgumentError:
            S.note("rejected")
            if ab_kind != 2:
                return Fail("class:valid-nested-spec-rejected", ab_kind=ab_kind)
            return True
        S.note("accepted")
        del fixtures.LOG[:]
        try:
            init = p.instantiate_classes(cfg)
        except Exception as ex:
            if ab_kind == 2:
                return True  # an abstract class cannot be instantiated; rejecting it at instantiation is acceptable
            raise
        if ab_kind == 2:
            return Fail("class:abstract-class-instantiated")
        names = [c[0] for c in fixtures.LOG]
        holder_calls = [c for c in fixtures.LOG if c[0] == "Holder"]
        if len(holder_calls) != 1:
            return Fail("class:not-constructed-exactly-once", log=names)
        hk = holder_calls[0][1]
        if names.index("Holder") < 1 + n_many:
            return Fail("class:holder-built-before-its-nested-objects", log=names)
        if type(hk["inner"]).__name__ != FAMILY[inner_i][0] or hk["inner"].w != ia["inner"]["init_args"]["w"]:
            return Fail("class:nested-object-wrong", got=type(hk["inner"]).__name__)
        built = [c[2] for c in fixtures.LOG]
        if not any(hk["inner"] is o for o in built):
            return Fail("class:nested-object-not-the-constructed-one")
        if n_many:
            if not isinstance(hk["many"], list) or len(hk["many"]) != n_many:
                return Fail("class:list-of-classes-wrong-length")
            for i, o in enumerate(hk["many"]):
                if type(o).__name__ != FAMILY[(inner_i + 1 + i) % 3][0] or o.w != many[i]["init_args"]["w"] or not any(o is b for b in built):
                    return Fail("class:list-member-wrong", index=i)
        if len(fixtures.LOG) != 2 + n_many + (1 if ab_kind == 1 else 0):
            return Fail("class:not-constructed-exactly-once", log=names)
        if init.h is not holder_calls[0][2]:
            return Fail("class:result-is-not-the-constructed-object")
        return True

    return harness


def class_change(names, via, c1a):
    """Two sibling class-typed arguments; a first source gives both a class spec, a second source changes the class of one
    of them. Relational: the outcome for the pair of names under test equals the outcome for neutral names."""
    from jsonargparse import ArgumentError, ArgumentParser

    from .. import fixtures

    install_format_stubs()
    CL = [("vf.fixtures.Base", {"w"}), ("vf.fixtures.Sub1", {"w", "z", "k"}), ("vf.fixtures.Sub2", {"w", "items", "flag"}), ("vf.fixtures.NoW", {"v"})]
    EXTRA = {"vf.fixtures.Sub1": ("z", 2.5), "vf.fixtures.Sub2": ("flag", True), "vf.fixtures.NoW": ("v", 3), "vf.fixtures.Base": ("w", 4)}

    def build(n1, n2):
        p = ArgumentParser(exit_on_error=False)
        p.add_argument("--" + n1, type=fixtures.Base, default=None)
        p.add_argument("--" + n2, type=fixtures.Base, default=None)
        return p

    def run(n1, n2, c1a, c2a, c1b, c2b, second_mentions_first, via):
        p = build(n1, n2)
        def spec(ci, with_extra=True):
            path, _ = CL[ci]
            d = {"class_path": path}
            if with_extra:
                k, v = EXTRA[path]
                d["init_args"] = {k: v}
            return d
        first = {n1: spec(c1a), n2: spec(c2a)}
        second = {n2: spec(c2b, with_extra=False)}
        if second_mentions_first:
            second[n1] = spec(c1b, with_extra=False)
        try:
            if via == "cfg_base":
                cfg = p.parse_object(second, cfg_base=p.parse_object(first))
            else:
                from jsonargparse import ActionConfigFile

                p.add_argument("--cfg", action=ActionConfigFile)
                cfg = p.parse_args(["--cfg", json.dumps(first), "--cfg", json.dumps(second)])
        except ArgumentError as ex:
            return ("rejected", str(ex)[:100])
        out = {}
        for role, n in (("first", n1), ("second", n2)):
            v = cfg[n]
            out[role] = (v.class_path, sorted((v.get("init_args") or {}).keys()))
        return ("ok", out)

    run(names[0], names[1], 1, 1, 1, 2, True, "cfg_base")

    def harness():
        c2a = S.choice("second.class.a", 4)
        c2b = S.choice("second.class.b", 4)
        mentions = S.flag("second_source_mentions_first")
        c1b = c1a if not S.flag("first_changes_too") else S.choice("first.class.b", 4)
        if S.replaying is not None:
            got = run(names[0], names[1], c1a, c2a, c1b, c2b, mentions, via)
            ref = run("alpha", "omega", c1a, c2a, c1b, c2b, mentions, via)
        else:
            from crosshair.tracers import NoTracing

            with NoTracing():
                got = run(names[0], names[1], c1a, c2a, c1b, c2b, mentions, via)
                ref = run("alpha", "omega", c1a, c2a, c1b, c2b, mentions, via)
        S.note("accepted" if ref[0] == "ok" else "rejected")
        if got[0] != ref[0]:
            return Fail("class:change-of-class-depends-on-sibling-names", names=names, got=got[0], neutral=ref[0], detail=got[1] if got[0] == "rejected" else "")
        if got[0] == "ok":
            if got[1] != ref[1]:
                return Fail("class:change-of-class-result-depends-on-sibling-names", names=names)
            if got[1]["second"][0] != CL[c2b][0]:
                return Fail("class:changed-class-not-taken", want=CL[c2b][0], got=got[1]["second"][0])
            if not set(got[1]["second"][1]) <= CL[c2b][1]:
                return Fail("class:init_args-of-the-old-class-survive", klass=CL[c2b][0], args=got[1]["second"][1])
        elif c2b != c2a or True:
            # a change of class between sources is valid: it must not be rejected
            return Fail("class:valid-change-of-class-rejected", names=names, detail=got[1])
        return True

    return harness


# ---- a Dict[str, Base] argument overridden key by key: every key behaves like a plain class argument given the same two values ----

_FIRST = {"Sub1": {"class_path": "vf.fixtures.Sub1", "init_args": {"w": 4, "z": 0.25}}, "Sub2": {"class_path": "vf.fixtures.Sub2", "init_args": {"w": 3, "flag": True}}}
_OVERRIDES = {
    "none": None,
    "init-w": {"init_args": {"w": 9}},
    "init-z": {"init_args": {"z": 0.75}},  # valid only if the class given before is Sub1
    "init-flag": {"init_args": {"flag": False}},  # valid only if the class given before is Sub2
    "other-class": {"class_path": "vf.fixtures.Base", "init_args": {"w": 1}},
    "same-class-name-only": {"class_path": "Sub1"},
}


def _dict_once(first, over, via):  # first / over: dicts keyed by the item names
    from typing import Dict

    from jsonargparse import ActionConfigFile, ArgumentError, ArgumentParser

    from ..fixtures import Base

    keys = sorted(first)

    def plain(k):
        p1 = ArgumentParser(exit_on_error=False)
        p1.add_argument("--x", type=Base, default=None)
        argv = ["--x=" + json.dumps(_FIRST[first[k]])]
        if _OVERRIDES[over[k]] is not None:
            argv.append("--x=" + json.dumps(_OVERRIDES[over[k]]))
        try:
            return "ok", p1.parse_args(argv).x
        except ArgumentError as ex:
            return "rejected", str(ex)[:100]

    want = {k: plain(k) for k in keys}
    pd = ArgumentParser(exit_on_error=False)
    pd.add_argument("--cfg", action=ActionConfigFile)
    pd.add_argument("--d", type=Dict[str, Base], default={})
    d1 = {k: _FIRST[first[k]] for k in keys}
    d2 = {k: _OVERRIDES[over[k]] for k in keys if _OVERRIDES[over[k]] is not None}
    argv = ["--cfg", json.dumps({"d": d1})] if via == "cfg-then-option" else ["--d=" + json.dumps(d1)]
    if d2:
        argv.append("--d=" + json.dumps(d2))
    try:
        got = pd.parse_args(argv).d
        status = "ok"
    except ArgumentError as ex:
        got, status = str(ex)[:100], "rejected"
    S.note(status)
    any_rejected = any(v[0] == "rejected" for k, v in want.items() if k in d2 or True)
    if (status == "rejected") != any_rejected:
        return Fail("dict-of-classes:accept-reject-differs-from-plain-arguments", first=first, over=over, via=via, got=status, plain={k: v[0] for k, v in want.items()})
    if status == "ok":
        if d2 and set(got) != set(keys):
            # a later dict replaces or merges? the documented rule for dict-typed keys is replace; per-key comparison only for the keys present
            pass
        for k in got:
            if k in want and want[k][0] == "ok" and (k in d2 or not d2):
                if _veq(got[k], want[k][1]) is False:
                    return Fail("dict-of-classes:key-differs-from-plain-argument", key=k, first=first[k], over=over[k], via=via, got=str(got[k])[:150], want=str(want[k][1])[:150])
    return True


def dict_of_classes(nkeys=2, via="two-options"):
    names = ("p", "q", "r")[:nkeys]
    _dict_once({k: "Sub1" for k in names}, {k: "none" for k in names}, via)

    def harness():
        first = {k: S.pick(f"first.{k}", ["Sub1", "Sub2"]) for k in names}
        over = {k: S.pick(f"over.{k}", sorted(_OVERRIDES)) for k in names}
        with untraced():
            return _dict_once(first, over, via)

    return harness


def main(rep, tier):
    rep.functions = FUNCTIONS
    rep.stubs = [FORMAT_STUBS_NOTE]
    rep.rule = ("one path per (class named, spec form, which init_args are given and of which kind, unknown init_arg, dict_kwargs) x branch of the real code on the "
                "symbolic values; non-trivial = accept/reject compared with the structural expectation and, when accepted, the constructor log compared with the configuration")
    rep.bounds = dict(family=[f[0] for f in FAMILY], forms=FORMS, value_kinds=VALUE_KINDS, nested="Holder(inner: Base, many: List[Base]); AbstractB/Concrete")
    rep.assumptions = [
        "class_path strings are concrete (import machinery); validity of an init_arg is structural (int excludes bool, float accepts int, Optional accepts None)",
        "an unknown init_arg name is invalid unless the class takes **kwargs; a callable returning the base class is accepted",
        "naming an abstract class may be rejected at parse or at instantiation",
        "a change of class between two sources (cfg_base / two --cfg texts) is valid; the outcome must not depend on how sibling arguments are named (relational, neutral names as reference)",
        "Protocols, Dict/Union-of-class parameters are outside (List of classes is inside)",
    ]
    jobs = []
    for f, n in (("explicit", 12), ("path-string", 1), ("name-string", 1), ("explicit-two-steps", 12), ("init-args-on-default", 3)):
        for sh in range(n):
            kw = dict(form=f, kinds=QUICK_KINDS if tier == "quick" else VALUE_KINDS)
            if n > 1:
                kw.update(shard=sh, nshards=n)
            jobs.append(dict(module="c14", func="specs", kwargs=kw, timeout=600))
    jobs.append(dict(module="c14", func="short_forms", kwargs={}, timeout=600))
    jobs.append(dict(module="c14", func="callables", kwargs={}, timeout=600))
    for via in ("two-options", "cfg-then-option"):
        jobs.append(dict(module="c14", func="dict_of_classes", kwargs=dict(nkeys=2 if tier == "quick" else 3, via=via), timeout=900))
    for names in ((["net", "net_ema"], ["net_ema", "net"]) if tier == "quick" else (["net", "net_ema"], ["net_ema", "net"], ["m", "m2"])):
        for via in ("cfg_base", "two-cfg"):
            for c1a in range(4):
                jobs.append(dict(module="c14", func="class_change", kwargs=dict(names=names, via=via, c1a=c1a), timeout=600))
    for sh in range(8):
        jobs.append(dict(module="c14", func="nested", kwargs=dict(shard=sh, nshards=8, max_many=1 if tier == "quick" else 2), timeout=600))
    results = run_jobs(jobs)
    fails = absorb(rep, results, require_tags=("accepted",))
    groups = {}
    for cls, samples in fails.items():
        for smp in samples:
            groups.setdefault((cls, smp["harness"], smp["info"].get("klass", ""), smp["info"].get("form", "")), []).append(smp)
    for (cls, hname, cname, form), samples in groups.items():
        reported = False
        for smp in samples[:4]:
            payload = dict(module="c14", func=hname, kwargs=smp["kwargs"], ordered=smp["values"].get("__order__", []))
            r = run_native("ch", "replay_path", payload)
            vals = dict(harness=hname, klass=cname, form=form, info=json.dumps(smp["info"], default=repr))
            if not r.get("reproduced"):
                rep.inconc(f"counterexample {cls} ({hname} {cname} {form}) did not reproduce natively: {smp['info']} -> {r}")
                continue
            known = rep.match_finding(cls, vals)
            if known:
                rep.known_finding(known, f"{cls} {cname} {form}")
            elif not reported:
                rep.violation(f"{cls} ({hname}, class {cname}, form {form}): {smp['info']} :: {r.get('detail')}", dict(module="ch", func="replay_path", payload=payload, cls=cls))
                reported = True
