"""C08 — parse, validate, dump and instantiate never modify what they are given.

E-CH/api. For each operation and parser shape: symbolic leaves, a solver bool "make the input
invalid" (so the call raises midway); a deep snapshot (value, concrete type and id() of every
nested container) of every argument, of the parser's defaults and of the process globals is
taken before the call and compared afterwards, whether the call returned or raised.
"""
import argparse
import json
import os
import sys
import tempfile

from ..ch import S, Fail, absorb, run_jobs, untraced
from ..common import run_native
from ..shapes import BY_NAME
from ..stubs import FORMAT_STUBS_NOTE, TEXT_STUB_NOTE, TextStub, install_format_stubs

FUNCTIONS = [
    "jsonargparse._core.ArgumentParser.parse_object/parse_args/validate/dump/save/merge_config/strip_unknown/instantiate_classes/get_defaults/format_help/_apply_actions",
    "jsonargparse._namespace.Namespace.clone/recreate_branches/strip_meta",
    "jsonargparse._typehints.adapt_typehints (assigns adapted elements back into the list/dict it is given), ActionTypeHint.instantiate_classes, lazy_instance",
    "jsonargparse._util.change_to_path_dir; jsonargparse._common.parser_context; jsonargparse._namespace.patch_namespace",
]

OPS = ["parse_object_dict", "parse_object_ns", "parse_object_cfg_base", "parse_args_ns", "validate", "validate_raw", "dump", "save", "merge_config", "strip_unknown",
       "instantiate", "get_defaults", "format_help"]
# operations in which the parsed keys have no previous value (nothing is merged with the defaults first)
NO_PREVIOUS_OPS = ["parse_object_nodefaults", "parse_string_json", "parse_env_json"]

# where a shape can be made invalid: (path in the object, bad value)
INVALID = {
    "scalars": (("a",), "bad"),
    "opt_small": (("a",), "bad"),
    "lists": (("l",), ["bad"]),
    "dicts": (("d",), {"k": "bad"}),
    "tuples": (("t",), [1, 2, 3]),
    "set_literal_enum": (("lit",), "zzz"),
    "set_small": (("en",), "zzz"),
    "dataclass": (("o", "a"), "bad"),
    "subclass": (("x",), {"class_path": "vf.fixtures.Other"}),
    "subclass_default": (("n",), "bad"),
    "groups": (("g", "a"), "bad"),
    "class_group": (("m", "w"), "bad"),
    "holder": (("h", "init_args", "n"), "bad"),
    "class_containers": (("ub",), "bad"),
}
C08_SHAPES_QUICK = ["lists", "tuples", "dicts", "set_small", "dataclass", "subclass_default", "class_group", "groups"]
C08_SHAPES_THOROUGH = C08_SHAPES_QUICK + ["scalars", "subclass", "holder", "set_literal_enum", "class_containers"]
CLASS_SHAPES = {"subclass", "subclass_default", "class_group", "dataclass", "holder", "class_containers", "class_list_small"}


def snap(x):
    """Deep snapshot: structure, concrete container types, container identities, leaf values."""
    from jsonargparse import Namespace

    if isinstance(x, Namespace):
        return ("ns", id(x), {k: snap(v) for k, v in vars(x).items()})
    if isinstance(x, dict):
        return ("dict", id(x), {k: snap(v) for k, v in x.items()})
    if isinstance(x, list):
        return ("list", id(x), [snap(v) for v in x])
    if isinstance(x, tuple):
        return ("tuple", id(x), [snap(v) for v in x])
    if isinstance(x, (set, frozenset)):
        return ("set", id(x), sorted(repr(v) for v in x))
    return ("leaf", type(x), x)


def snap_diff(a, b, path="", ids=True):
    """None if the two snapshots agree, else a description of the first difference."""
    if a[0] != b[0]:
        return f"{path}: kind {a[0]} -> {b[0]}"
    if a[0] == "leaf":
        if a[1] is not b[1]:
            return f"{path}: leaf type {a[1].__name__} -> {b[1].__name__}"
        x, y = a[2], b[2]
        if not (x is y or x == y or (x != x and y != y)):
            return f"{path}: leaf value changed"
        return None
    if ids and a[1] != b[1]:
        return f"{path}: container replaced (identity changed)"
    if a[0] in ("ns", "dict"):
        if list(a[2].keys()) != list(b[2].keys()):
            return f"{path}: keys {list(a[2].keys())} -> {list(b[2].keys())}"
        for k in a[2]:
            r = snap_diff(a[2][k], b[2][k], f"{path}.{k}", ids)
            if r:
                return r
        return None
    if a[0] == "set":
        return None if a[2] == b[2] else f"{path}: set content changed"
    if len(a[2]) != len(b[2]):
        return f"{path}: length {len(a[2])} -> {len(b[2])}"
    for i, (x, y) in enumerate(zip(a[2], b[2])):
        r = snap_diff(x, y, f"{path}[{i}]", ids)
        if r:
            return r
    return None


def _set_path(obj, path, value):
    node = obj
    for p in path[:-1]:
        if not isinstance(node.get(p), dict):
            node[p] = {}
        node = node[p]
    node[path[-1]] = value


def _globals_snapshot():
    return dict(cwd=os.getcwd(), env=dict(os.environ), ns_class=argparse.Namespace, argv=list(sys.argv), argv_id=id(sys.argv))


def _globals_diff(a, b):
    if a["cwd"] != b["cwd"]:
        return f"working directory {a['cwd']} -> {b['cwd']}"
    if a["env"] != b["env"]:
        return "os.environ changed"
    if a["ns_class"] is not b["ns_class"]:
        return "argparse.Namespace replaced"
    if a["argv"] != b["argv"] or a["argv_id"] != b["argv_id"]:
        return "sys.argv changed"
    return None


def _to_ns(obj):
    from jsonargparse import Namespace

    ns = Namespace()
    for k, v in obj.items():
        ns[k] = v
    return ns


def mutation(op, shape):
    from jsonargparse import ArgumentError, Namespace

    from .. import fixtures

    install_format_stubs()
    with_default_file = shape.endswith("+default_config_file")
    sh = BY_NAME[shape.split("+")[0]]
    parser = sh.build()
    if shape.endswith("+spec"):
        # the class-typed argument's declared default is a class spec with init_args (a dict), not a lazy instance
        from ..shapes import _ap

        parser = _ap()
        parser.add_argument("--x", type=fixtures.Base, default={"class_path": "vf.fixtures.Sub1", "init_args": {"w": 7, "z": 0.25}})
        parser.add_argument("--n", type=int, default=0)
    tmpdir = tempfile.mkdtemp(prefix="c08_")
    if with_default_file:
        # a default config file that overrides options whose declared default is None / not None
        dcf = os.path.join(tmpdir, "defaults.yaml")
        with open(dcf, "w") as f:
            f.write("d: 5\nod: 8\na: 3\nsource: from_file\n")
        parser.add_argument("source")  # an untyped positional: its help string holds no %-template at all
        parser.default_config_files = [dcf]
    parser.parse_object({})  # warm-up

    def declared_defaults():
        """The defaults as declared on the actions (what get_default reports once no default config file applies)."""
        from jsonargparse._actions import filter_default_actions

        return {a.dest: snap(a.default) for a in filter_default_actions(parser._actions) if isinstance(a.default, (int, float, bool, str, list, dict, tuple, set, type(None), Namespace))}

    def harness():
        if op in ("parse_string_json", "parse_env_json"):
            S.window = [0, 7]
        try:
            obj = sh.sym()
        finally:
            S.window = None
        invalid = S.flag("invalid") if shape.split("+")[0] in INVALID else False
        bad_path, bad_val = INVALID.get(shape.split("+")[0], ((), None))
        defaults_before = snap(parser.get_defaults())
        declared_before = declared_defaults()
        g0 = _globals_snapshot()
        args = {}
        raised = None
        # ---- prepare the call's arguments
        if op in NO_PREVIOUS_OPS:
            if op == "parse_object_nodefaults":
                args = dict(cfg_obj=obj)
                call = lambda: parser.parse_object(obj, defaults=False)
            else:
                # text channels: concrete leaves (window) keep the document concrete
                doc = json.dumps(obj)
                env = {"APP_" + k.upper(): (json.dumps(v) if not isinstance(v, str) else v) for k, v in obj.items()}
                args = dict(env=env)
                call = (lambda: parser.parse_string(doc)) if op == "parse_string_json" else (lambda: parser.parse_env(env))
        elif op in ("parse_object_dict", "parse_object_ns", "parse_object_cfg_base", "parse_args_ns", "validate_raw"):
            if invalid:
                _set_path(obj, bad_path, bad_val)
            if op == "parse_object_dict":
                args = dict(cfg_obj=obj)
                call = lambda: parser.parse_object(obj)
            elif op == "parse_object_ns":
                ns = _to_ns(obj)
                args = dict(cfg_obj=ns)
                call = lambda: parser.parse_object(ns)
            elif op == "parse_object_cfg_base":
                ns = _to_ns(obj)
                args = dict(cfg_base=ns)
                call = lambda: parser.parse_object({}, cfg_base=ns)
            elif op == "parse_args_ns":
                ns = _to_ns(obj)
                argv = ["--" + k + "=" + json.dumps(v) for k, v in obj.items() if isinstance(v, (bool,)) and False]
                args = dict(namespace=ns, argv=argv)
                call = lambda: parser.parse_args(argv, namespace=ns)
            else:
                ns = _to_ns(obj)
                args = dict(cfg=ns)
                call = lambda: parser.validate(ns)
        else:
            try:
                cfg = parser.parse_object(obj)
            except ArgumentError:
                return None
            if invalid:
                cfg[".".join(bad_path)] = bad_val
            if op == "validate":
                args = dict(cfg=cfg)
                call = lambda: parser.validate(cfg)
            elif op == "dump":
                args = dict(cfg=cfg)

                def call():
                    with TextStub(parser):
                        return parser.dump(cfg, skip_none=False)
            elif op == "save":
                args = dict(cfg=cfg)
                path = os.path.join(tmpdir, "out.yaml")

                def call():
                    with TextStub(parser):
                        return parser.save(cfg, path, overwrite=True)
            elif op == "merge_config":
                other = parser.parse_object({})
                args = dict(cfg_from=cfg, cfg_to=other)
                call = lambda: parser.merge_config(cfg, other)
            elif op == "strip_unknown":
                cfg["zz_unknown"] = [1, {"a": 2}]
                args = dict(cfg=cfg)
                call = lambda: parser.strip_unknown(cfg)
            elif op == "instantiate":
                args = dict(cfg=cfg)
                call = lambda: parser.instantiate_classes(cfg)
            elif op == "get_defaults":
                args = dict(cfg=cfg)

                def call():
                    d = parser.get_defaults()
                    # scribble over what was returned: the parser's own defaults must not move
                    for k, v in list(d.items()):
                        if isinstance(v, list):
                            v.append(99)
                        elif isinstance(v, dict):
                            v["zz"] = 1
                    return d
            elif op == "format_help":
                args = dict(cfg=cfg)
                call = lambda: parser.format_help()
            else:
                raise RuntimeError(op)
        before = {k: snap(v) for k, v in args.items()}
        del fixtures.LOG[:]
        try:
            if op in ("parse_string_json", "parse_env_json"):
                with untraced():  # every input of the text operations is concrete
                    result = call()
            else:
                result = call()
        except (ArgumentError, TypeError, KeyError, ValueError) as ex:
            raised = ex
            result = None
        S.note("raised" if raised is not None else "returned")
        for k, v in args.items():
            r = snap_diff(before[k], snap(v))
            if r:
                return Fail("mutated:argument", op=op, shape=shape, argument=k, where=r, raised=raised is not None)
        r = _globals_diff(g0, _globals_snapshot())
        if r:
            return Fail("mutated:process-state", op=op, shape=shape, what=r)
        r = snap_diff(defaults_before, snap(parser.get_defaults()), ids=False)
        if r:
            return Fail("mutated:parser-defaults", op=op, shape=shape, where=r)
        declared_after = declared_defaults()
        for k_, v_ in declared_before.items():
            r = snap_diff(v_, declared_after.get(k_, ("leaf", type(None), None)), ids=False)
            if r:
                return Fail("mutated:declared-default-of-an-argument", op=op, shape=shape, key=k_, where=r)
        if op == "instantiate" and raised is None and shape in CLASS_SHAPES:
            log1 = [(n, _plain(kw)) for n, kw, _ in fixtures.LOG]
            objs1 = [o for _, _, o in fixtures.LOG]
            del fixtures.LOG[:]
            result2 = parser.instantiate_classes(cfg)
            log2 = [(n, _plain(kw)) for n, kw, _ in fixtures.LOG]
            objs2 = [o for _, _, o in fixtures.LOG]
            if len(log1) != len(log2) or any(a[0] != b[0] for a, b in zip(log1, log2)):
                return Fail("instantiate:second-run-builds-different-classes", shape=shape, first=[a[0] for a in log1], second=[a[0] for a in log2])
            if any(a is b for a in objs1 for b in objs2):
                return Fail("instantiate:object-shared-between-runs", shape=shape)
            shared = _shared_objects(result, result2)
            if shared:
                return Fail("instantiate:object-shared-between-runs", shape=shape, key=shared)
        return True

    return harness


def _plain(kw):
    return {k: (type(v).__name__ if not isinstance(v, (int, float, bool, str, type(None), list)) else v) for k, v in kw.items()}


def _shared_objects(a, b, path=""):
    """Key of an instantiated (non-basic) object that is the same object in both results."""
    from jsonargparse import Namespace

    if isinstance(a, Namespace) and isinstance(b, Namespace):
        for k in vars(a):
            if k in vars(b):
                r = _shared_objects(vars(a)[k], vars(b)[k], f"{path}.{k}")
                if r:
                    return r
        return None
    if isinstance(a, list) and isinstance(b, list):
        for i, (x, y) in enumerate(zip(a, b)):
            r = _shared_objects(x, y, f"{path}[{i}]")
            if r:
                return r
        return None
    if isinstance(a, (int, float, bool, str, type(None), tuple, dict, set)) or a is None:
        return None
    if type(a).__module__.startswith("vf.fixtures") and a is b:
        return path
    return None


def plan(tier):
    shapes = C08_SHAPES_QUICK if tier == "quick" else C08_SHAPES_THOROUGH
    jobs = []
    for op in ("parse_args_ns", "parse_object_cfg_base", "merge_config"):
        if tier == "quick":
            jobs.append((op, "class_list_small"))
    for op in ("format_help", "get_defaults", "parse_object_dict", "dump", "parse_args_ns"):
        jobs.append((op, "opt_small+default_config_file"))
    for op in NO_PREVIOUS_OPS + ["parse_object_dict", "validate", "instantiate"]:
        jobs.append((op, "subclass_default+spec"))
    for shape in shapes:
        for op in OPS:
            if op == "instantiate" and shape not in CLASS_SHAPES:
                continue
            if op == "validate_raw" and shape in CLASS_SHAPES:
                continue  # a hand-built namespace holding raw dict specs is not a configuration of these parsers
            if tier == "quick" and op in ("format_help", "save", "strip_unknown") and shape not in ("lists", "tuples", "dataclass"):
                continue
            jobs.append((op, shape))
    return jobs


def main(rep, tier):
    rep.functions = FUNCTIONS
    rep.stubs = [FORMAT_STUBS_NOTE, TEXT_STUB_NOTE + " (dump/save ops only: the emitter would fork per character on symbolic scalars)"]
    rep.rule = ("one path per (operation, shape, branch of the real code on the symbolic leaves, invalid-input bit); non-trivial = the operation ran "
                "(returned or raised) and all snapshots were compared")
    p = plan(tier)
    rep.bounds = dict(operations=OPS, shapes=sorted({s for _, s in p}), jobs=len(p))
    rep.assumptions = [
        "snapshot = structure, concrete type and id() of every nested Namespace/dict/list/tuple/set of every argument + leaf values; the parser's "
        "get_defaults(); os.getcwd(); os.environ; argparse.Namespace; sys.argv",
        "an invalid input is produced at one fixed position per shape (wrong kind / wrong arity / foreign class); the call then raises midway",
        "dump/save run with the text stub (dict captured before serialisation); save writes into a temp directory",
        "lists of argument strings: parse_args is called with an empty list and a namespace argument",
    ]
    jobs = [dict(module="c08", func="mutation", kwargs=dict(op=op, shape=shape), timeout=200 if tier == "quick" else 900) for op, shape in p]
    results = run_jobs(jobs)
    fails = absorb(rep, results, require_tags=("returned", "raised"))
    groups = {}
    for cls, samples in fails.items():
        for smp in samples:
            groups.setdefault((cls, smp["kwargs"]["op"], smp["kwargs"]["shape"]), []).append(smp)
    for (cls, op, shape), samples in groups.items():
        reported = False
        for smp in samples:
            payload = dict(module="c08", func="mutation", kwargs=smp["kwargs"], ordered=smp["values"].get("__order__", []))
            r = run_native("ch", "replay_path", payload)
            vals = dict(op=op, shape=shape, info=json.dumps(smp["info"], default=repr), replay=r.get("detail", ""))
            if not r.get("reproduced"):
                rep.inconc(f"counterexample {cls} (op {op}, shape {shape}) did not reproduce natively: {smp['info']} -> {r}")
                continue
            known = rep.match_finding(cls, vals)
            if known:
                rep.known_finding(known, f"{cls} {op} {shape}")
            elif not reported:
                rep.violation(f"{cls} (op {op}, shape {shape}): {smp['info']} :: {r.get('detail')}", dict(module="ch", func="replay_path", payload=payload, cls=cls))
                reported = True
