"""C16 — classes are instantiated in an order compatible with every link.

kernel: DirectedGraph over k edges with unconstrained symbolic labels (paths = equality
        patterns of the 2k labels = every graph with <= k edges on <= 2k nodes, in every
        insertion order), oracle = Kahn's algorithm written with == only.
e2e:    three class groups with logging constructors; six solver-chosen link bits, symbolic
        ints for the parameters; link_arguments(apply_on='instantiate') + instantiate_classes.
"""
import itertools

from ..ch import S, Fail, absorb, native, run_jobs, untraced
from ..common import run_native

FUNCTIONS = [
    "jsonargparse._link_arguments.DirectedGraph.add_edge/get_topological_order/topological_sort",
    "jsonargparse._link_arguments.ActionLink.__init__/instantiation_order/reorder/apply_instantiation_links/set_target_value",
    "jsonargparse._core.ArgumentParser.instantiate_classes/link_arguments/add_class_arguments/parse_object",
]


# ------------------------------------------------------------------ kernel


def _canon(labels):
    """Canonical node index of each label using == only (forks on every comparison)."""
    reps, out = [], []
    for x in labels:
        for i, r in enumerate(reps):
            if r == x:
                out.append(i)
                break
        else:
            reps.append(x)
            out.append(len(reps) - 1)
    return out, reps


def _kahn_cyclic(n, edges):
    edges = sorted(set(edges))
    indeg = [0] * n
    for s, t in edges:
        indeg[t] += 1
    queue = [i for i in range(n) if indeg[i] == 0]
    seen = 0
    while queue:
        u = queue.pop()
        seen += 1
        for s, t in edges:
            if s == u:
                indeg[t] -= 1
                if indeg[t] == 0:
                    queue.append(t)
    return seen != n


def _check_graph(DirectedGraph, edge_labels):
    """edge_labels: list of (s, t) label pairs (symbolic or concrete). Returns True / Fail."""
    flat = [x for e in edge_labels for x in e]
    idx, reps = _canon(flat)
    E = [(idx[2 * i], idx[2 * i + 1]) for i in range(len(edge_labels))]
    g = DirectedGraph()
    for s, t in edge_labels:
        g.add_edge(s, t)
    try:
        order = g.get_topological_order()
        raised = False
    except ValueError:
        raised = True
    cyclic = _kahn_cyclic(len(reps), E)
    S.note("cyclic" if cyclic else "acyclic")
    if raised != cyclic:
        return Fail("graph:cycle-verdict", edges=E, raised=raised, cyclic=cyclic)
    if not raised:
        pos = []
        for x in order:
            for i, r in enumerate(reps):
                if r == x:
                    pos.append(i)
                    break
            else:
                return Fail("graph:order-has-foreign-node", edges=E)
        if sorted(pos) != list(range(len(reps))):
            return Fail("graph:order-not-a-permutation", edges=E, order=pos)
        where = {n: i for i, n in enumerate(pos)}
        for s, t in E:
            if where[s] >= where[t]:
                return Fail("graph:edge-goes-backwards", edges=E, order=pos)
    return True


def _patterns(m):
    """All canonical equality patterns (restricted growth strings) of m labels."""
    out = [[0]]
    for _ in range(m - 1):
        out = [p + [j] for p in out for j in range(max(p) + 2)]
    return out


def kernel(k, shard_labels=0, shard=None):
    from jsonargparse._link_arguments import DirectedGraph

    want = None if shard is None else _patterns(shard_labels)[shard]

    def harness():
        labels = [S.int(f"n{i}") for i in range(2 * k)]
        if want is not None:
            got, _ = _canon(labels[:shard_labels])
            if got != want:
                return None
        return _check_graph(DirectedGraph, [(labels[2 * i], labels[2 * i + 1]) for i in range(k)])

    return harness


def dense(n, shard_bits=0, shard=0, order="fwd"):
    """Every directed graph without self loops on n concrete nodes: one solver bit per ordered pair decides whether
    add_edge is called for it (the first shard_bits bits are fixed by the shard number); the insertion order of the
    chosen edges is a parameter (lexicographic, reversed, or sinks first)."""
    from jsonargparse._link_arguments import DirectedGraph

    pairs = _dense_pairs(n, order)
    fixed = [bool((shard >> b) & 1) for b in range(shard_bits)]

    def harness():
        edges = []
        for idx, e in enumerate(pairs):
            present = fixed[idx] if idx < shard_bits else S.flag(f"e{e[0]}{e[1]}")
            if present:
                edges.append(e)
        if not edges:
            return None
        return _check_graph(DirectedGraph, edges)

    return harness


def _dense_pairs(n, order):
    pairs = [(i, j) for i in range(n) for j in range(n) if i != j]
    if order == "rev":
        pairs = pairs[::-1]
    elif order == "tgt":
        pairs = sorted(pairs, key=lambda e: (e[1], -e[0]))
    return pairs


def _dense_edges(kwargs, values):
    pairs = _dense_pairs(kwargs["n"], kwargs.get("order", "fwd"))
    sb, sh = kwargs.get("shard_bits", 0), kwargs.get("shard", 0)
    out = []
    for idx, e in enumerate(pairs):
        present = bool((sh >> idx) & 1) if idx < sb else bool(values.get(f"e{e[0]}{e[1]}", False))
        if present:
            out.append(list(e))
    return out


def replay_kernel(payload):
    """payload: dict(edges=[[s,t],...]) concrete node numbers."""
    from jsonargparse._link_arguments import DirectedGraph

    return native(_check_graph, DirectedGraph, [tuple(e) for e in payload["edges"]])


# ------------------------------------------------------------------ end to end

LOG = []


def _make_classes(names):
    classes = {}
    for pos, name in enumerate(names):
        params = ", ".join(f"y_{o}: int = -1" for o in names if o != name)
        body = "\n".join(f"        self.y_{o} = y_{o}" for o in names if o != name)
        src = (
            f"class K_{name}:\n"
            f"    def __init__(self, x: int = 0, {params}):\n"
            f"        self.x = x\n"
            f"        self.out = x + {pos + 1}\n"
            f"{body}\n"
            f"        LOG.append(('{name}', self))\n"
        )
        ns = {"LOG": LOG}
        exec(src, ns)
        classes[name] = ns[f"K_{name}"]
        classes[name].__module__ = __name__
        globals()[f"K_{name}"] = classes[name]
    return classes


def _double(v):
    return v * 2 + 1


def _cyclic(n, edges):
    return _kahn_cyclic(n, edges)


def _e2e_once(names, decl, bits, xs, fn_bits, typed=()):
    """Build the parser, add the selected links, parse, instantiate, check. Returns True/Fail."""
    from jsonargparse import ArgumentParser

    classes = _make_classes(names)
    parser = ArgumentParser(exit_on_error=False)
    for name in decl:
        if name in typed:
            parser.add_subclass_arguments(classes[name], name)  # a class_path component instead of a class group
        else:
            parser.add_class_arguments(classes[name], name)
    pairs = [(s, t) for s in names for t in names if s != t]
    edges = []
    for n, (s, t) in enumerate(pairs):
        if not bits[n]:
            continue
        would = edges + [(names.index(s), names.index(t))]
        cyc = _cyclic(len(names), would)
        try:
            target = f"{t}.init_args.y_{s}" if t in typed else f"{t}.y_{s}"
            parser.link_arguments(f"{s}.out", target, compute_fn=_double if fn_bits[n] else None, apply_on="instantiate")
            raised = False
        except ValueError:
            raised = True
        if raised != cyc:
            return Fail("e2e:cycle-verdict-at-link-creation", link=f"{s}->{t}", raised=raised, cyclic=cyc, edges=edges)
        if raised:
            S.note("cycle-rejected")
            return True
        edges = would
    S.note(f"links={len(edges)}")
    cfg = parser.parse_object({name: ({"class_path": f"{__name__}.K_{name}", "init_args": {"x": xs[name]}} if name in typed else {"x": xs[name]}) for name in names})
    del LOG[:]
    init = parser.instantiate_classes(cfg)
    built = [n for n, _ in LOG]
    if sorted(built) != sorted(names):
        return Fail("e2e:not-exactly-once", built=built)
    where = {n: i for i, n in enumerate(built)}
    for si, ti in edges:
        if where[names[si]] >= where[names[ti]]:
            return Fail("e2e:target-built-before-source", built=built, edges=edges)
    objs = dict(LOG)
    for name in names:
        if init[name] is not objs[name]:
            return Fail("e2e:result-is-not-the-constructed-object", name=name)
        if objs[name].x != xs[name]:
            return Fail("e2e:parameter-x-wrong", name=name)
    for n, (s, t) in enumerate(pairs):
        got = getattr(objs[t], f"y_{s}")
        if bits[n]:
            exp = objs[s].out
            if fn_bits[n]:
                exp = _double(exp)
            if got != exp:
                return Fail("e2e:target-parameter-not-fed-from-source", link=f"{s}->{t}")
        elif got != -1:
            return Fail("e2e:unlinked-parameter-changed", link=f"{s}->{t}")
    return True


def e2e(names, decl, shard=None, shard_bits=0, with_fn=False, typed=()):
    names = list(names)
    decl = list(decl)
    typed = tuple(typed)
    _e2e_once(names, decl, [False] * 6, {n: 1 for n in names}, [False] * 6, typed)  # warm-up (lazy registrations)
    npairs = len(names) * (len(names) - 1)

    def harness():
        bits = [S.flag(f"link{n}") for n in range(npairs)]
        if shard is not None:
            got = sum(1 << i for i in range(shard_bits) if bits[i])
            if got != shard:
                return None
        fn_bits = [(S.flag(f"fn{n}") if (with_fn and bits[n]) else False) for n in range(npairs)]
        xs = {n: S.int(f"x_{n}") for n in names}
        return _e2e_once(names, decl, bits, xs, fn_bits, typed)

    return harness


class Inner:
    def __init__(self, d: int = -1):
        self.d = d
        LOG.append(("inner", self))


class NA:
    def __init__(self, x: int = 0, y_b: int = -1, y_c: int = -1):
        self.x, self.y_b, self.y_c, self.out = x, y_b, y_c, x + 1
        LOG.append(("a", self))


class NB:
    def __init__(self, inner: Inner, x: int = 0, y_a: int = -1, y_c: int = -1):
        self.inner, self.x, self.y_a, self.y_c, self.out = inner, x, y_a, y_c, x + 2
        LOG.append(("b", self))


class Leaf:
    def __init__(self, d: int = -1):
        self.d = d
        LOG.append(("inner", self))  # the object holding the linked parameter is logged as "inner" at either depth


class Mid:
    def __init__(self, leaf: Leaf, m: int = 0):
        self.leaf = leaf
        LOG.append(("mid", self))


class NB2:
    """Like NB, but the linked parameter sits two levels down: inner (Mid) -> leaf (Leaf) -> d."""

    def __init__(self, inner: Mid, x: int = 0, y_a: int = -1, y_c: int = -1):
        self.inner, self.x, self.y_a, self.y_c, self.out = inner, x, y_a, y_c, x + 2
        LOG.append(("b", self))


class NC:
    def __init__(self, x: int = 0, y_a: int = -1, y_b: int = -1):
        self.x, self.y_a, self.y_b, self.out = x, y_a, y_b, x + 3
        LOG.append(("c", self))


def _nested_once(decl, bits, nested_pos, src, xs, depth=1, bname="b"):
    """Components a, b, c; b holds a nested class argument `inner`. One link feeds `b.inner.init_args.d` from another
    component (a nested target: it is built as part of b, so its source must be built before b); the other links are a
    solver-chosen subset of the six plain ones; nested_pos says after how many of them the nested link is added."""
    from jsonargparse import ArgumentParser

    names = ["a", "b", "c"]
    classes = {"a": NA, "b": NB if depth == 1 else NB2, "c": NC}
    key = {"a": "a", "b": bname, "c": "c"}  # the key of component b may itself end in 'init_args'
    nested_target = f"{bname}.inner.init_args.d" if depth == 1 else f"{bname}.inner.init_args.leaf.init_args.d"
    def _declare():
        parser = ArgumentParser(exit_on_error=False)
        for name in decl:
            parser.add_class_arguments(classes[name], key[name])
        pairs = [(s, t) for s in names for t in names if s != t]
        todo = [("plain", s, t) for n, (s, t) in enumerate(pairs) if bits[n]]
        todo.insert(min(nested_pos, len(todo)), ("nested", src, "b"))
        edges = []
        for kind, s, t in todo:
            would = edges + [(names.index(s), names.index(t))]
            cyc = _cyclic(3, would)
            try:
                parser.link_arguments(f"{key[s]}.out", nested_target if kind == "nested" else f"{key[t]}.y_{s}", apply_on="instantiate")
                raised = False
            except ValueError:
                raised = True
            if raised != cyc:
                return Fail("nested:cycle-verdict-at-link-creation", link=f"{kind}:{s}->{t}", raised=raised, cyclic=cyc, edges=edges), None, None, None
            if raised:
                return True, None, None, None
            edges = would
        return None, parser, pairs, edges

    with untraced():  # declaring parsers and links involves no symbolic value (the link bits are concrete by now)
        verdict, parser, pairs, edges = _declare()
    if verdict is not None:
        if verdict is True:
            S.note("cycle-rejected")
        return verdict
    S.note(f"links={len(edges)}")
    obj = {key[n]: {"x": xs[n]} for n in names}
    obj[bname]["inner"] = {"class_path": f"{__name__}.Inner"} if depth == 1 else {"class_path": f"{__name__}.Mid", "init_args": {"leaf": {"class_path": f"{__name__}.Leaf"}}}
    cfg = parser.parse_object(obj)
    del LOG[:]
    try:
        init = parser.instantiate_classes(cfg)
    except ValueError as ex:
        if "compute_fn" in str(ex) or "failed" in str(ex):
            return Fail("nested:instantiation-failed", edges=edges)
        raise
    built = [n for n, _ in LOG]
    if sorted(built) != (["a", "b", "c", "inner"] if depth == 1 else ["a", "b", "c", "inner", "mid"]):
        return Fail("nested:not-exactly-once", built=built)
    where = {n: i for i, n in enumerate(built)}
    for si, ti in edges:
        if where[names[si]] >= where[names[ti]]:
            return Fail("nested:target-built-before-source", built=built, edges=edges)
    objs = dict(LOG)
    holder = objs["b"].inner if depth == 1 else objs["b"].inner.leaf
    if init[bname] is not objs["b"] or holder is not objs["inner"]:
        return Fail("nested:result-is-not-the-constructed-object")
    got = objs["inner"].d
    if not isinstance(got, int) or got != objs[src].out:
        return Fail("nested:target-parameter-not-fed-from-source", link=f"{src}->b.inner")
    for n, (s, t) in enumerate(pairs):
        got = getattr(objs[t], f"y_{s}")
        if bits[n]:
            if got != objs[s].out:
                return Fail("nested:target-parameter-not-fed-from-source", link=f"{s}->{t}")
        elif got != -1:
            return Fail("nested:unlinked-parameter-changed", link=f"{s}->{t}")
    return True


def nested(decl, src, shard=None, depth=1, bname="b"):
    decl = list(decl)
    _nested_once(decl, [False] * 6, 0, src, {n: 1 for n in "abc"}, depth, bname)

    def harness():
        bits = [S.flag(f"link{n}") for n in range(6)]
        if shard is not None and sum(1 << i for i in range(3) if bits[i]) != shard:
            return None
        nested_pos = S.choice("nested_pos", 7)
        if nested_pos > sum(1 for b in bits if b):
            return None
        xs = {n: S.int(f"x_{n}") for n in "abc"}
        return _nested_once(decl, bits, nested_pos, src, xs, depth, bname)

    return harness


def replay_e2e(payload):
    return native(_e2e_once, payload["names"], payload["decl"], payload["bits"], payload["xs"], payload["fn_bits"], tuple(payload.get("typed", ())))


def self_links(payload):
    """A link whose target parameter belongs to the component it is computed from is a cycle on its own."""
    from jsonargparse import ArgumentParser

    bad = []
    cases = [("a.out", "a.y_b", None), ("a", "a.y_b", None), (("a.out", "b.out"), "b.y_a", lambda p, q: p), ("a.out", "a.init_args.y_b", "typed")]
    for prior in (0, 1, 2):
        for src, tgt, extra in cases:
            classes = _make_classes(["a", "b", "c"])
            parser = ArgumentParser(exit_on_error=False)
            for name in ("a", "b", "c"):
                if extra == "typed" and name == "a":
                    parser.add_subclass_arguments(classes[name], name)
                else:
                    parser.add_class_arguments(classes[name], name)
            if prior >= 1:
                parser.link_arguments("b.out", "c.y_b", apply_on="instantiate")
            if prior >= 2:
                parser.link_arguments("c.x", "b.x")  # a parse link: does not count as an instantiate link
            try:
                parser.link_arguments(src, tgt, compute_fn=(extra if callable(extra) else None), apply_on="instantiate")
                bad.append(f"link_arguments({src!r}, {tgt!r}) after {prior} other link(s)")
            except ValueError:
                pass
    return dict(bad=bad, reproduced=bool(bad), detail=str(bad))


class SrcNone:
    """A source whose attribute exists and is None for x == 0."""

    def __init__(self, x: int = 0):
        self.x = x
        self.attr = None if x == 0 else x


class SrcNoneSub(SrcNone):
    pass


class TgtOpt:
    def __init__(self, p: "typing.Optional[int]" = 5):
        self.p = p


import typing  # noqa: E402


def none_attr(payload):
    """The target receives the source's attribute also when that attribute is None (class group and subclass-typed sources)."""
    from jsonargparse import ArgumentParser

    bad = []
    for typed in (False, True):
        for x in (0, 3):
            for with_fn in (False, True):
                parser = ArgumentParser(exit_on_error=False)
                if typed:
                    parser.add_subclass_arguments(SrcNone, "s")
                else:
                    parser.add_class_arguments(SrcNone, "s")
                parser.add_class_arguments(TgtOpt, "t")
                parser.link_arguments("s.attr", "t.p", compute_fn=(lambda v: v) if with_fn else None, apply_on="instantiate")
                obj = {"s": {"class_path": f"{__name__}.SrcNoneSub", "init_args": {"x": x}}} if typed else {"s": {"x": x}}
                init = parser.instantiate_classes(parser.parse_object(obj))
                want = None if x == 0 else x
                if init.t.p != want or (init.t.p is None) != (want is None):
                    bad.append(f"source {'subclass argument' if typed else 'class group'} with attr={want!r}{' through compute_fn' if with_fn else ''}: target received {init.t.p!r}")
    return dict(bad=bad, reproduced=bool(bad), detail=str(bad))


def refused_link(payload):
    """A link refused because it would close a cycle must leave the parser as it was: parsing and instantiating afterwards give what a
    parser on which the link was never attempted gives."""
    from jsonargparse import ArgumentParser

    bad = []
    for typed in (False, True):
        outcomes = []
        for attempt in (True, False):
            classes = _make_classes(["a", "b", "c"])
            parser = ArgumentParser(exit_on_error=False)
            for name in ("a", "b", "c"):
                if typed and name == "a":
                    parser.add_subclass_arguments(classes[name], name)
                else:
                    parser.add_class_arguments(classes[name], name)
            parser.link_arguments("a.out", "b.y_a", apply_on="instantiate")
            if attempt:
                try:
                    parser.link_arguments("b.out", "a.init_args.y_b" if typed else "a.y_b", apply_on="instantiate")
                    bad.append("cyclic link accepted")
                except ValueError:
                    pass
            try:
                obj = {"a": {"class_path": f"{__name__}.K_a", "init_args": {"x": 1}} if typed else {"x": 1}}
                cfg = parser.parse_object(obj)
                del LOG[:]
                init = parser.instantiate_classes(cfg)
                outcomes.append(("ok", init.b.y_a, init.a.y_b, sorted(n for n, _ in LOG)))
            except Exception as ex:
                outcomes.append(("raised", type(ex).__name__, str(ex)[:120]))
        if outcomes[0] != outcomes[1]:
            bad.append(f"after a refused cyclic link ({'subclass argument' if typed else 'class group'}): {outcomes[0]} ; without the attempt: {outcomes[1]}")
    return dict(bad=bad, reproduced=bool(bad), detail=str(bad))


# ------------------------------------------------------------------ main


def _bits_from(values, prefix, n):
    return [bool(values.get(f"{prefix}{i}", False)) for i in range(n)]


def main(rep, tier):
    rep.functions = FUNCTIONS
    rep.rule = (
        "kernel: one path per equality pattern of the 2k symbolic node labels (= one graph with <= k edges up to "
        "relabelling, in one insertion order); dense: one path per assignment of the n(n-1) edge bits (= one labelled digraph); e2e: one path per (link subset, compute_fn subset) with symbolic int "
        "parameters; non-trivial = the assertion was evaluated on the path"
    )
    rep.stubs = ["format() of symbolic numbers yields '<sym>' (the cycle message formats node labels)"]
    rep.assumptions = [
        "kernel: graphs with more than k edges are outside the label-pattern harness (k=3 quick, k=4 thorough); dense: every directed graph "
        "without self loops on n concrete nodes (n=4 quick in three insertion orders; n=5 thorough, 2^20 graphs in lexicographic insertion "
        "order) - one solver bit per ordered pair; graphs on more than n nodes with more than k edges are outside",
        "nested: three class groups, b holds a class-typed parameter `inner`; one link X.out -> b.inner.init_args.d (X in a, c) added "
        "before, between or after a solver-chosen subset of the six plain links; it counts as the edge X -> b in the cycle model",
        "e2e: class groups only (add_class_arguments), links X.out -> Y.y_X; three components; "
        "component names ('a','b','c') and the prefix-clash variant ('a','ab','c')",
        "CrossHair's integer model (mathematical ints) and its interception of list.index / in / ==",
    ]
    jobs = []
    if tier == "quick":
        k = 3
        rep.bounds = dict(kernel_edges=3, kernel_nodes=6, dense_nodes=4, dense_graphs=3 * 4096, e2e_components=3, e2e_link_graphs=64)
        jobs.append(dict(module="c16", func="kernel", kwargs=dict(k=1), timeout=60))
        jobs.append(dict(module="c16", func="kernel", kwargs=dict(k=2), timeout=60))
        for sh in range(len(_patterns(3))):
            jobs.append(dict(module="c16", func="kernel", kwargs=dict(k=3, shard_labels=3, shard=sh), timeout=120))
        for order in ("fwd", "rev", "tgt"):
            for sh in range(8):
                jobs.append(dict(module="c16", func="dense", kwargs=dict(n=4, shard_bits=3, shard=sh, order=order), timeout=200))
        for names, decl, typed in ((("a", "b", "c"), ("a", "b", "c"), ()), (("a", "ab", "c"), ("ab", "c", "a"), ())):
            nb = 4 if typed else 3
            for sh in range(2 ** nb):
                jobs.append(dict(module="c16", func="e2e", kwargs=dict(names=names, decl=decl, shard=sh, shard_bits=nb, typed=list(typed)), timeout=400))
    else:
        rep.bounds = dict(kernel_edges=4, kernel_nodes=8, dense_nodes=5, dense_graphs=2 ** 20 + 3 * 4096, e2e_components=3, e2e_link_graphs=64, e2e_decl_orders=6, compute_fn_subsets=True)
        jobs.append(dict(module="c16", func="kernel", kwargs=dict(k=1), timeout=60))
        jobs.append(dict(module="c16", func="kernel", kwargs=dict(k=2), timeout=60))
        jobs.append(dict(module="c16", func="kernel", kwargs=dict(k=3), timeout=300))
        for sh in range(len(_patterns(4))):
            jobs.append(dict(module="c16", func="kernel", kwargs=dict(k=4, shard_labels=4, shard=sh), timeout=900))
        for order in ("fwd", "rev", "tgt"):
            for sh in range(8):
                jobs.append(dict(module="c16", func="dense", kwargs=dict(n=4, shard_bits=3, shard=sh, order=order), timeout=300))
        for sh in range(256):
            jobs.append(dict(module="c16", func="dense", kwargs=dict(n=5, shard_bits=8, shard=sh, order="fwd"), timeout=900))
        for names in (("a", "b", "c"), ("a", "ab", "c")):
            for decl in itertools.permutations(names):
                for sh in range(4):
                    jobs.append(dict(module="c16", func="e2e", kwargs=dict(names=names, decl=list(decl), shard=sh, shard_bits=2, with_fn=(decl == names)), timeout=900))
    for src in ("a", "c"):
        for decl in ((("b", "c", "a"),) if tier == "quick" else itertools.permutations(("a", "b", "c"))):
            for sh in range(8):
                jobs.append(dict(module="c16", func="nested", kwargs=dict(decl=list(decl), src=src, shard=sh), timeout=600 if tier == "quick" else 1800))
    # nested targets two levels down and/or below a component whose own key ends in 'init_args'. The quick tier runs the combination
    # (both code paths in one family of 8 shards); the thorough tier runs every combination for both sources.
    combos = [("c", 2, "w_init_args")] if tier == "quick" else [(src, d, b) for src in ("a", "c") for d, b in ((2, "b"), (1, "w_init_args"), (2, "w_init_args"))]
    for src, depth_, bname_ in combos:
        for sh in range(8):
            jobs.append(dict(module="c16", func="nested", kwargs=dict(decl=["b", "c", "a"], src=src, shard=sh, depth=depth_, bname=bname_), timeout=600 if tier == "quick" else 1800))
    if tier == "thorough":
        for sh in range(16):
            jobs.append(dict(module="c16", func="e2e", kwargs=dict(names=["a", "b", "c"], decl=["c", "a", "b"], shard=sh, shard_bits=4, typed=["b"]), timeout=1800))
    results = run_jobs(jobs)
    fails = absorb(rep, results, require_tags=("cyclic", "acyclic", "cycle-rejected"))
    # links that are a cycle by themselves must be refused when added, whatever was added before (concrete API facts)
    bad = run_native("props.c16", "self_links", {}).get("bad", [])
    rep.evaluations += 1
    rep.extra["self_link_cases"] = bad or "all refused when added"
    for b in bad:
        rep.violation(f"self-loop link accepted: {b}", dict(module="props.c16", func="self_links", payload={}))
    bad = run_native("props.c16", "refused_link", {}).get("bad", [])
    rep.evaluations += 1
    rep.extra["refused_link_cases"] = bad or "the parser answers as if the refused link had never been attempted"
    for b in bad:
        rep.violation(f"refused cyclic link: {b}", dict(module="props.c16", func="refused_link", payload={}))
    bad = run_native("props.c16", "none_attr", {}).get("bad", [])
    rep.evaluations += 1
    rep.extra["none_attribute_cases"] = bad or "target receives None in all 8 cases"
    for b in bad:
        rep.violation(f"link source attribute None: {b}", dict(module="props.c16", func="none_attr", payload={}))
    for cls, samples in fails.items():
        s = samples[0]
        v = s["values"]
        if s["harness"] == "kernel":
            k = s["kwargs"]["k"]
            edges = [[v.get(f"n{2*i}", 0), v.get(f"n{2*i+1}", 0)] for i in range(k)]
            payload = dict(edges=edges)
            r = run_native("props.c16", "replay_kernel", payload)
            rp = dict(module="props.c16", func="replay_kernel", payload=payload)
        elif s["harness"] == "dense":
            payload = dict(edges=_dense_edges(s["kwargs"], v))
            r = run_native("props.c16", "replay_kernel", payload)
            rp = dict(module="props.c16", func="replay_kernel", payload=payload)
        elif s["harness"] == "nested":
            payload = dict(module="c16", func="nested", kwargs=s["kwargs"], ordered=v.get("__order__", []))
            r = run_native("ch", "replay_path", payload)
            rp = dict(module="ch", func="replay_path", payload=payload)
        else:
            names = s["kwargs"]["names"]
            payload = dict(names=names, decl=s["kwargs"]["decl"], typed=s["kwargs"].get("typed", []), bits=_bits_from(v, "link", 6), fn_bits=_bits_from(v, "fn", 6),
                           xs={n: v.get(f"x_{n}", 0) for n in names})
            # fn flags are created only for selected links, in order: re-map
            fn_vals = [val for key, val in v.items() if key.startswith("fn")]
            it = iter(fn_vals)
            payload["fn_bits"] = [bool(next(it, False)) if b and s["kwargs"].get("with_fn") else False for b in payload["bits"]]
            r = run_native("props.c16", "replay_e2e", payload)
            rp = dict(module="props.c16", func="replay_e2e", payload=payload)
        if not r.get("reproduced"):
            rep.inconc(f"counterexample of class {cls} did not reproduce natively: {s}")
            continue
        known = rep.match_finding(cls, v)
        if known:
            rep.known_finding(known, cls)
        else:
            rep.violation(f"{cls}: {r.get('detail')}", dict(rp, cls=cls, sample=s))
