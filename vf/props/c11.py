"""C11 — Namespace behaves as a nested mapping addressed by dotted keys.

E-CH/kernel on the real jsonargparse._namespace.Namespace. The *history* is the symbolic
input: at each of k steps solver-chosen integers select a mutator, a dotted key and a value
kind; leaf values are symbolic ints. A reference nested-dict model is updated alongside and
all observers are compared after every step.
"""
from ..ch import S, Fail, absorb, native, run_jobs
from ..common import run_native

FUNCTIONS = [
    "jsonargparse._namespace.Namespace.__init__/_parse_key/_parse_required_key/_create_nested_namespace/__setattr__/__setitem__/"
    "__getitem__/__delitem__/__contains__/as_dict/items/keys/values/clone/update/get/pop/__eq__",
    "jsonargparse._namespace.recreate_branches/dict_to_namespace/namespace_to_dict/add_clash_mark/del_clash_mark",
]

MUTATORS = ["setitem", "setattr", "del", "pop", "update_ns", "update_key", "update_unset", "update_ns_unset"]
TAKES_VALUE = {"setitem", "setattr", "update_ns", "update_key", "update_unset", "update_ns_unset"}
KEYS_QUICK = ["a", "b", "items", "a.b", "a.items", "items.a"]
KEYS_THOROUGH = KEYS_QUICK + ["keys", "a.b.items", "get.update"]
KINDS = ["int", "list", "tuple", "ns", "none"]
MISSING = object()


class Branch(dict):
    """A branch node of the reference model (leaves are any other value)."""


def m_get(model, path):
    node = model
    for p in path:
        if not isinstance(node, Branch) or p not in node:
            return MISSING
        node = node[p]
    return node


def m_set(model, path, value):
    node = model
    for p in path[:-1]:
        nxt = node.get(p, MISSING)
        if not isinstance(nxt, Branch):
            nxt = Branch()
            node[p] = nxt  # a leaf (or nothing) on the way becomes a branch, keeping its position
        node = nxt
    node[path[-1]] = value


def m_del(model, path):
    parent = m_get(model, path[:-1]) if len(path) > 1 else model
    if not isinstance(parent, Branch) or path[-1] not in parent:
        return False
    del parent[path[-1]]
    return True


def m_leaves(node, prefix=(), branches=False):
    out = []
    for k, v in node.items():
        if isinstance(v, Branch):
            if branches:
                out.append((prefix + (k,), v))
            out.extend(m_leaves(v, prefix + (k,), branches))
        else:
            out.append((prefix + (k,), v))
    return out


class NsList(list):
    """Model of a leaf that is a list of namespaces (a list of Branch objects)."""


def m_dict(node):
    return {k: (m_dict(v) if isinstance(v, Branch) else [m_dict(b) for b in v] if isinstance(v, NsList) else v) for k, v in node.items()}


def m_copy(node):
    return Branch((k, (m_copy(v) if isinstance(v, Branch) else NsList(m_copy(b) for b in v) if isinstance(v, NsList) else v)) for k, v in node.items())


def _mk_value(kind, ints, Namespace):
    """Returns (implementation value, model value)."""
    if kind == "int":
        return ints[0], ints[0]
    if kind == "list":
        return [ints[0], ints[1]], [ints[0], ints[1]]
    if kind == "tuple":
        return (ints[0], ints[1]), (ints[0], ints[1])
    if kind == "none":
        return None, None
    if kind == "list_ns":
        items = []
        for i in ints[:2]:
            it = Namespace()
            it["x"] = i
            items.append(it)
        return items, NsList([Branch(x=ints[0]), Branch(x=ints[1])])
    ns = Namespace()
    ns["x"] = ints[0]
    return ns, Branch(x=ints[0])


def _apply(ns, model, mut, key, kind, ints, Namespace):
    """Apply one mutator to both. Returns None or a Fail."""
    path = tuple(key.split("."))
    before = m_copy(model)
    value, mvalue = (None, None)
    if mut in TAKES_VALUE:
        value, mvalue = _mk_value(kind, ints, Namespace)
    expect_error = False
    ret_expected = MISSING
    if mut in ("setitem", "setattr"):
        m_set(model, path, mvalue)
    elif mut == "del":
        expect_error = not m_del(model, path)
    elif mut == "pop":
        ret_expected = m_get(model, path)
        if ret_expected is not MISSING:
            m_del(model, path)
    elif mut == "update_ns":
        # argument namespace holding `value` at `key`; update sets each of its leaves
        if isinstance(mvalue, Branch):
            for lp, lv in m_leaves(mvalue):
                m_set(model, path + lp, lv)
        else:
            m_set(model, path, mvalue)
    elif mut == "update_ns_unset":
        # argument namespace holding `value` at `key`; only leaves whose key is not present (as leaf or branch) are set
        if isinstance(mvalue, Branch):
            for lp, lv in m_leaves(mvalue):
                if m_get(model, path + lp) is MISSING:
                    m_set(model, path + lp, lv)
        elif m_get(model, path) is MISSING:
            m_set(model, path, mvalue)
    elif mut in ("update_key", "update_unset"):
        unset_only = mut == "update_unset"
        if isinstance(mvalue, Branch):
            for lp, lv in m_leaves(mvalue):
                if not unset_only or m_get(model, path + lp) is MISSING:
                    m_set(model, path + lp, lv)
        else:
            if not unset_only or m_get(model, path) is MISSING:
                m_set(model, path, mvalue)
    raised = None
    ret = MISSING
    try:
        if mut == "setitem":
            ns[key] = value
        elif mut == "setattr":
            setattr(ns, key, value)
        elif mut == "del":
            del ns[key]
        elif mut == "pop":
            ret = ns.pop(key, MISSING)
        elif mut == "update_ns":
            arg = Namespace()
            arg[key] = value
            r = ns.update(arg)
            if r is not ns:
                return Fail("ns:update-does-not-return-self")
        elif mut == "update_ns_unset":
            arg = Namespace()
            arg[key] = value
            ns.update(arg, only_unset=True)
        elif mut == "update_key":
            ns.update(value, key)
        elif mut == "update_unset":
            ns.update(value, key, only_unset=True)
    except Exception as ex:
        raised = ex
    if expect_error:
        if raised is None:
            return Fail("ns:del-of-missing-key-did-not-raise", key=key)
        model.clear()
        model.update(before)
        return None
    if raised is not None:
        return Fail("ns:mutator-raised", mut=mut, key=key, exc=type(raised).__name__ + ": " + str(raised)[:200])
    if mut == "pop":
        if ret_expected is MISSING:
            if ret is not MISSING:
                return Fail("ns:pop-of-missing-key-returned-a-value", key=key)
        else:
            if not _same(ret, ret_expected, Namespace):
                return Fail("ns:pop-returned-wrong-value", key=key)
    return None


def _same(got, exp, Namespace):
    """Implementation value `got` equals model value `exp` (Branch <-> Namespace)."""
    if isinstance(exp, Branch):
        if not isinstance(got, Namespace):
            return False
        if list(vars(got).keys()) != [_mark(k) for k in exp.keys()]:
            return False
        return all(_same(vars(got)[_mark(k)], v, Namespace) for k, v in exp.items())
    if isinstance(got, Namespace):
        return False
    if isinstance(exp, NsList):
        body = [e for e in exp if isinstance(e, Branch)]
        extra = [e for e in exp if not isinstance(e, Branch)]  # probes appended to a clone's list
        if not isinstance(got, list) or len(got) != len(exp):
            return False
        return all(_same(g, e, Namespace) for g, e in zip(got, body)) and list(got[len(body):]) == extra
    if type(got) is not type(exp) and not (isinstance(got, int) and isinstance(exp, int)):
        return False
    return got == exp


_CLASH = None


def _mark(k):
    return ("\u200b" + k) if k in _CLASH else k


def _observe(ns, model, probes, Namespace, N):
    """Compare every observer with the model. Returns None or Fail."""
    for key in probes:
        path = tuple(key.split("."))
        exp = m_get(model, path)
        has = key in ns
        if has != (exp is not MISSING):
            return Fail("ns:contains-disagrees", key=key, has=has)
        g = ns.get(key, MISSING)
        if exp is MISSING:
            if g is not MISSING:
                return Fail("ns:get-returns-value-for-missing-key", key=key)
            try:
                ns[key]
                return Fail("ns:getitem-of-missing-key-did-not-raise", key=key)
            except KeyError:
                pass
        else:
            if not _same(g, exp, Namespace):
                return Fail("ns:get-wrong-value", key=key)
            if not _same(ns[key], exp, Namespace):
                return Fail("ns:getitem-wrong-value", key=key)
            # dotted vs. step by step
            node = ns
            try:
                for p in path:
                    node = node[p]
            except Exception as ex:
                return Fail("ns:step-by-step-access-raised", key=key, exc=type(ex).__name__)
            if not _same(node, exp, Namespace):
                return Fail("ns:step-by-step-differs-from-dotted", key=key)
    for branches in (False, True):
        exp_items = [(".".join(p), v) for p, v in m_leaves(model, branches=branches)]
        got_items = list(ns.items(branches=branches)) if branches else list(ns.items())
        if [k for k, _ in got_items] != [k for k, _ in exp_items]:
            return Fail("ns:items-keys-differ", branches=branches, got=[k for k, _ in got_items], exp=[k for k, _ in exp_items])
        for (gk, gv), (ek, ev) in zip(got_items, exp_items):
            if not _same(gv, ev, Namespace):
                return Fail("ns:items-value-differs", key=gk, branches=branches)
        if list(ns.keys(branches=branches)) != [k for k, _ in exp_items]:
            return Fail("ns:keys-differ", branches=branches)
        vals = list(ns.values(branches=branches))
        if len(vals) != len(exp_items) or not all(_same(g, e[1], Namespace) for g, e in zip(vals, exp_items)):
            return Fail("ns:values-differ", branches=branches)
    md = m_dict(model)
    ad = ns.as_dict()
    if ad != md or list(ad.keys()) != list(md.keys()):
        return Fail("ns:as_dict-differs")
    if not _same(ns, model, Namespace):
        return Fail("ns:a-read-only-observer-changed-the-namespace", observer="as_dict")
    if N.namespace_to_dict(ns) != md:
        return Fail("ns:namespace_to_dict-differs")
    back = N.dict_to_namespace(md)
    if not _same(back, model, Namespace):
        return Fail("ns:dict_to_namespace-round-trip")
    if not (back == ns) or (back != ns):
        return Fail("ns:eq-false-on-equal-content")
    c = ns.clone()
    if not _same(c, model, Namespace) or not (c == ns):
        return Fail("ns:clone-differs")
    if c is ns:
        return Fail("ns:clone-is-same-object")
    # independence of the clone: mutate every branch and list of the clone, original must not move
    c["zz_probe"] = 1
    for p, v in m_leaves(model, branches=True):
        if isinstance(v, Branch):
            c[".".join(p) + ".zz_probe"] = 1
        elif isinstance(v, list):
            c[".".join(p)].append(0)
    if not _same(ns, model, Namespace):
        return Fail("ns:clone-not-independent")
    other = ns.clone()
    other["zz_probe"] = 1
    if other == ns:
        return Fail("ns:eq-true-on-different-content")
    # Namespace(ns) copy constructor and Namespace(dict) for flat content
    cp = Namespace(ns)
    if not (cp == ns):
        return Fail("ns:copy-constructor-differs")
    return None


def history(k, keys, first=None, reduced=False, no_tuple=False, kinds_only=None):
    import jsonargparse._namespace as N

    global _CLASH
    Namespace = N.Namespace
    _CLASH = set(dir(Namespace))
    muts = MUTATORS if not reduced else ["setitem", "del", "update_ns", "update_unset"]
    kinds = KINDS if not reduced else ["int", "ns"]
    if no_tuple:
        kinds = [x for x in kinds if x != "tuple"]
    if kinds_only:
        kinds = list(kinds_only)
    probes = sorted(set(keys) | {".".join(x.split(".")[:i]) for x in keys for i in range(1, len(x.split(".")))} | {"zz", "a.zz", "a.b.zz"})

    def harness():
        ns = Namespace()
        model = Branch()
        for step in range(k):
            if step == 0 and first is not None:
                mi, ki = first
                # the shard fixes the first step; still create the variables so that samples are uniform
                mut, key = muts[mi], keys[ki]
            else:
                mut = S.pick(f"mut{step}", muts)
                key = S.pick(f"key{step}", keys)
            kind = S.pick(f"kind{step}", kinds) if mut in TAKES_VALUE else "int"
            ints = [S.int(f"v{step}a"), S.int(f"v{step}b")] if mut in TAKES_VALUE and kind != "none" else [0, 0]
            S.note(mut)
            f = _apply(ns, model, mut, key, kind, ints, Namespace)
            if f is not None:
                f.info.update(step=step, history_so_far=f"{mut} {key} {kind}")
                return f
            f = _observe(ns, model, probes, Namespace, N)
            if f is not None:
                f.info.update(step=step, after=f"{mut} {key} {kind}")
                return f
        return True

    return harness


def _replay_history(steps):
    import jsonargparse._namespace as N

    global _CLASH
    Namespace = N.Namespace
    _CLASH = set(dir(Namespace))
    keys = KEYS_THOROUGH
    probes = sorted(set(keys) | {".".join(x.split(".")[:i]) for x in keys for i in range(1, len(x.split(".")))} | {"zz", "a.zz", "a.b.zz"})
    ns = Namespace()
    model = Branch()
    for n, (mut, key, kind, ints) in enumerate(steps):
        f = _apply(ns, model, mut, key, kind, ints, Namespace)
        if f is None:
            f = _observe(ns, model, probes, Namespace, N)
        if f is not None:
            f.info.update(step=n)
            return f
    return True


def replay_history(payload):
    return native(_replay_history, [tuple(s) for s in payload["steps"]])


def _steps_from_sample(s):
    """Rebuild the concrete history of a failing path from its model values."""
    kw = s["kwargs"]
    v = s["values"]
    reduced = kw.get("reduced", False)
    muts = MUTATORS if not reduced else ["setitem", "del", "update_ns", "update_unset"]
    kinds = KINDS if not reduced else ["int", "ns"]
    if kw.get("no_tuple"):
        kinds = [x for x in kinds if x != "tuple"]
    keys = kw["keys"]
    steps = []
    for step in range(kw["k"]):
        if step == 0 and kw.get("first") is not None:
            mut, key = muts[kw["first"][0]], keys[kw["first"][1]]
        else:
            if f"mut{step}" not in v:
                break
            mut, key = muts[v[f"mut{step}"]], keys[v[f"key{step}"]]
        kind = kinds[v.get(f"kind{step}", 0)] if mut in TAKES_VALUE else "int"
        ints = [v.get(f"v{step}a", 0), v.get(f"v{step}b", 0)]
        steps.append([mut, key, kind, ints])
    return steps


def main(rep, tier):
    rep.functions = FUNCTIONS
    rep.rule = ("one path per history (mutator, key, value kind per step) and per branch the real code takes on the symbolic leaf ints; "
                "non-trivial = every observer was compared with the reference model after every step of the history")
    rep.assumptions = [
        "histories start from the empty Namespace; length <= 2 over the full alphabet (7 mutators x keys x 5 value kinds), "
        "thorough adds 9 keys and length 3 over a reduced alphabet (4 mutators x 4 keys x 2 kinds)",
        "value kinds: int, list, tuple, None, Namespace with one leaf; dict-valued leaves (and keys traversing them) are outside the claim",
        "an assignment through a non-branch leaf replaces that leaf by a branch (the reference model does the same)",
        "del of a missing key must raise (any exception type) and leave the namespace unchanged; no other mutator may raise",
        "items/keys/values/as_dict are compared in insertion order, as a nested dict would give them",
    ]
    jobs = []
    if tier == "quick":
        keys = KEYS_QUICK
        rep.bounds = dict(history_length=2, mutators=MUTATORS, keys=keys, value_kinds=[k for k in KINDS if k != "tuple"])
        jobs.append(dict(module="c11", func="history", kwargs=dict(k=1, keys=keys), timeout=120))
        # leaves that are lists of namespaces (what List[dataclass] arguments and dict_to_namespace produce), with namespaces and ints
        jobs.append(dict(module="c11", func="history", kwargs=dict(k=1, keys=keys, kinds_only=["list_ns", "ns", "int"]), timeout=120))
        for mi in range(len(MUTATORS)):
            jobs.append(dict(module="c11", func="history", kwargs=dict(k=2, keys=keys[:4], first=[mi, 0], kinds_only=["list_ns", "int"]), timeout=240))
        for mi in range(len(MUTATORS)):
            for ki in range(len(keys)):
                jobs.append(dict(module="c11", func="history", kwargs=dict(k=2, keys=keys, first=[mi, ki], no_tuple=True), timeout=240))
    else:
        keys = KEYS_THOROUGH
        rep.bounds = dict(history_length=2, mutators=MUTATORS, keys=keys, value_kinds=KINDS,
                          reduced_history_length=3, reduced_alphabet=dict(mutators=4, keys=4, kinds=2))
        jobs.append(dict(module="c11", func="history", kwargs=dict(k=1, keys=keys), timeout=300))
        for mi in range(len(MUTATORS)):
            for ki in range(len(keys)):
                jobs.append(dict(module="c11", func="history", kwargs=dict(k=2, keys=keys, first=[mi, ki]), timeout=900))
        rk = ["a", "items", "a.b", "a.items"]
        for mi in range(4):
            for ki in range(4):
                jobs.append(dict(module="c11", func="history", kwargs=dict(k=3, keys=rk, first=[mi, ki], reduced=True), timeout=1800))
    results = run_jobs(jobs)
    fails = absorb(rep, results, require_tags=tuple(MUTATORS))
    for cls, samples in fails.items():
        reported = False
        for s in samples:
            steps = _steps_from_sample(s)
            payload = dict(steps=steps)
            r = run_native("props.c11", "replay_history", payload)
            if not r.get("reproduced"):
                rep.inconc(f"counterexample of class {cls} did not reproduce natively: {steps} -> {r}")
                continue
            known = rep.match_finding(cls, dict(steps=steps))
            if known:
                rep.known_finding(known, cls)
            elif not reported:
                rep.violation(f"{cls}: history {steps} :: {r.get('detail')}", dict(module="props.c11", func="replay_history", payload=payload, cls=cls, sample=s))
                reported = True
