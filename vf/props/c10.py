"""C10 — parse results are fixed points: re-parsing or validating changes nothing.

E-CH/api on the shared parser shapes with symbolic leaves:
  cfg = parse_object(obj);  validate(cfg) passes;  parse_object(cfg) == cfg (type for type);
  D = dump-dict(cfg);  dump-dict(parse_object(D)) == D   (normal form reached in one step).
E-CH/kernel: adapt_typehints(adapt_typehints(v, T), T) == adapt_typehints(v, T) on the type grammar of C02.
Thorough: byte identity dump(parse_string(dump(cfg))) == dump(cfg) through the real text on
solver-chosen concrete leaves (the e2e harness shared with C01).
"""
import json

from ..ch import S, Fail, absorb, run_jobs
from ..common import run_native
from ..shapes import BY_NAME, same, shapes_for
from ..stubs import FORMAT_STUBS_NOTE, TEXT_STUB_NOTE, capture_dump, install_format_stubs
from . import c02

FUNCTIONS = [
    "jsonargparse._core.ArgumentParser.parse_object/validate/_check_value_key/dump/_dump_cleanup_actions",
    "jsonargparse._typehints.adapt_typehints (early-outs for already adapted values, serialize and deserialize directions), ActionTypeHint._check_type/serialize",
    "jsonargparse.typing.RegisteredType.is_value_of_type",
]


def fixpoint(shape, shard=None, nshards=1):
    from jsonargparse import ArgumentError, Namespace

    install_format_stubs()
    sh = BY_NAME[shape]
    parser = sh.build()
    try:
        parser.dump(parser.get_defaults(), skip_none=False)
    except Exception:
        pass

    def harness():
        obj = sh.sym()
        if shard is not None and S.shard(nshards) != shard:
            return None
        try:
            cfg = parser.parse_object(obj)
        except ArgumentError:
            S.note("rejected")
            return None
        S.note("accepted")
        try:
            parser.validate(cfg)
        except (TypeError, KeyError) as ex:
            return Fail("fixpoint:result-does-not-validate", msg=str(ex)[:200])
        try:
            again = parser.parse_object(cfg.clone())
        except ArgumentError as ex:
            return Fail("fixpoint:result-not-accepted-as-object", msg=str(ex)[:200])
        r = same(cfg, again)
        if r:
            return Fail("fixpoint:reparse-of-result-differs", where=r)
        d1 = capture_dump(parser, cfg, skip_none=False)
        try:
            cfg2 = parser.parse_object(json_copy(d1))
        except ArgumentError as ex:
            return Fail("fixpoint:dump-not-accepted", msg=str(ex)[:200])
        d2 = capture_dump(parser, cfg2, skip_none=False)
        r = same(d1, d2)
        if r:
            return Fail("fixpoint:dump-not-normal-form", where=r)
        return True

    return harness


_FILES = {}


def _files_dir():
    import os
    import tempfile

    if not _FILES:
        d = os.path.join(tempfile.gettempdir(), f"vf_c10_files_{os.getpid()}")
        os.makedirs(d, exist_ok=True)
        for name, text in (("d.yaml", "k: 4\nj: 5\n"), ("g.yaml", "k: 11\nr: 2.5\n"), ("x.yaml", "class_path: vf.fixtures.Sub1\ninit_args:\n  w: 4\n"), ("l.txt", "1\n2\n")):
            with open(os.path.join(d, name), "w") as f:
                f.write(text)
        _FILES["dir"] = d
    return _FILES["dir"]


def from_files():
    """Values that were loaded from files carry metadata (__path__); a parse result holding them is still a fixed point."""
    import os
    from typing import Dict, List

    from jsonargparse import ArgumentError, ArgumentParser

    from ..fixtures import Base, Inner

    install_format_stubs()
    d = _files_dir()
    parser = ArgumentParser(exit_on_error=False)
    parser.add_argument("--d", type=Dict[str, int], default={}, enable_path=True)
    parser.add_argument("--g", type=Inner, default=Inner())
    parser.add_argument("--x", type=Base, default=None, enable_path=True)
    parser.add_argument("--l", type=List[int], default=[], enable_path=True)
    parser.add_argument("--n", type=int, default=0)
    parser.parse_object({})

    def harness():
        obj = {"n": S.int("n")}
        obj["d"] = os.path.join(d, "d.yaml") if S.flag("d.from_file") else {"k": S.int("d.k")}
        obj["g"] = os.path.join(d, "g.yaml") if S.flag("g.from_file") else {"k": S.int("g.k")}
        if S.flag("x.given"):
            obj["x"] = os.path.join(d, "x.yaml") if S.flag("x.from_file") else {"class_path": "vf.fixtures.Base", "init_args": {"w": S.int("x.w")}}
        obj["l"] = os.path.join(d, "l.txt") if S.flag("l.from_file") else [S.int("l0")]
        try:
            cfg = parser.parse_object(obj)
        except ArgumentError:
            S.note("rejected")
            return None
        S.note("accepted")
        try:
            parser.validate(cfg)
        except (TypeError, KeyError) as ex:
            return Fail("fixpoint:result-does-not-validate", msg=str(ex)[:200])
        try:
            again = parser.parse_object(cfg.clone())
        except ArgumentError as ex:
            return Fail("fixpoint:result-not-accepted-as-object", msg=str(ex)[:200])
        r = same(cfg, again)  # metadata keys included
        if r:
            return Fail("fixpoint:reparse-of-result-differs", where=r)
        return True

    return harness


def json_copy(d):
    if isinstance(d, dict):
        return {k: json_copy(v) for k, v in d.items()}
    if isinstance(d, list):
        return [json_copy(v) for v in d]
    return d


def kernel(spec, depth=0):
    """adapt_typehints idempotence on the C02 type grammar (deserialise direction)."""
    install_format_stubs()
    import jsonargparse._typehints as T

    hint = c02._resolve(spec)
    c02.INT_WINDOW[0] = (-2, 3) if c02._uses_restricted(spec) else None

    def harness():
        v = c02.element("v", depth)
        if v is None:
            return None
        try:
            a = T.adapt_typehints(v, hint, sub_add_kwargs={})
        except Exception:
            S.note("rejected")
            return None
        S.note("accepted")
        try:
            b = T.adapt_typehints(a, hint, sub_add_kwargs={})
        except Exception as ex:
            return Fail("kernel:adapted-value-rejected", spec=spec, exc=type(ex).__name__)
        if same(a, b):
            return Fail("kernel:second-adaptation-changes-value", spec=spec, where=same(a, b))
        # serialise -> deserialise gives the adapted value back
        try:
            s_ = T.adapt_typehints(json_copy_any(a), hint, serialize=True, sub_add_kwargs={})
            c = T.adapt_typehints(s_, hint, sub_add_kwargs={})
        except Exception as ex:
            return Fail("kernel:serialised-value-rejected", spec=spec, exc=type(ex).__name__)
        if same(a, c):
            return Fail("kernel:serialise-deserialise-changes-value", spec=spec, where=same(a, c))
        return True

    return harness


def json_copy_any(v):
    if isinstance(v, dict):
        return {k: json_copy_any(x) for k, x in v.items()}
    if isinstance(v, list):
        return [json_copy_any(x) for x in v]
    if isinstance(v, tuple):
        return tuple(json_copy_any(x) for x in v)
    if isinstance(v, set):
        return set(v)
    return v


# ---- the command line as the channel: class choices and sub-options on top of three kinds of default -----------------

ARGV_MENU = [[], ["--x=Sub2"], ["--x=NoParams"], ["--x=NoW"], ["--x=Sub2", "--x.w=3"], ["--x.w=5"], ["--x=vf.fixtures.NoParams"], ["--x=Sub1", "--x.z=0.25", "--x=NoParams"],
             ["--x=NoParams", "--x=Sub1"], ['--x={"class_path": "vf.fixtures.Sub2", "init_args": {"flag": true}}'], ["--y=2"], ["--l+=4"], ["--l=[7]", "--l+=[8, 9]"],
             ["--o.k=5"], ["--o=null"], ['--o={"k": 1}', "--o.r=0.5"]]


def _argv_parser(default_kind):
    from typing import List, Optional

    from jsonargparse import ArgumentParser, lazy_instance

    from ..fixtures import Base, Inner, Sub1

    default = {"none": None, "spec": {"class_path": "vf.fixtures.Sub1", "init_args": {"w": 7, "z": 0.75}}, "lazy": lazy_instance(Sub1, w=7)}[default_kind]
    p = ArgumentParser(exit_on_error=False)
    p.add_argument("--x", type=Base, default=default)
    p.add_argument("--y", type=float, default=1.0)  # defaults are not normalised by design: keep them in normal form
    p.add_argument("--l", type=List[int], default=[1])
    p.add_argument("--o", type=Optional[Inner], default=None)
    return p


def _argv_once(default_kind, argv):
    from jsonargparse import ArgumentError

    p = _argv_parser(default_kind)
    try:
        cfg = p.parse_args(list(argv))
    except ArgumentError:
        return None
    try:
        p.validate(cfg)
    except Exception as ex:
        return Fail("argv:parse-result-fails-validation", argv=argv, default=default_kind, msg=str(ex)[:200])
    try:
        again = p.parse_object(cfg.clone())
    except ArgumentError as ex:
        return Fail("argv:parse-result-rejected-as-object", argv=argv, default=default_kind, msg=str(ex)[:200])
    r = same(cfg, again)
    if r:
        return Fail("argv:re-parsing-as-object-changes-the-result", argv=argv, default=default_kind, where=r)
    for fmt in ("yaml", "json"):
        t1 = p.dump(cfg, format=fmt, skip_none=False)
        try:
            t2 = p.dump(p.parse_string(t1), format=fmt, skip_none=False)
        except ArgumentError as ex:
            return Fail("argv:dump-not-accepted", argv=argv, default=default_kind, fmt=fmt, msg=str(ex)[:200])
        if t1 != t2:
            return Fail("argv:dump-parse-dump-not-byte-identical", argv=argv, default=default_kind, fmt=fmt, first=t1, second=t2)
    return True


def argv_channel():
    _argv_once("none", [])

    def harness():
        kind = S.pick("default", ["none", "spec", "lazy"])
        argv = S.pick("argv", ARGV_MENU)
        if S.replaying is not None:
            res = _argv_once(kind, argv)
        else:
            from crosshair.tracers import NoTracing

            with NoTracing():
                res = _argv_once(kind, argv)
        S.note("accepted" if res is not None else "rejected")
        return res

    return harness


KERNEL_SPECS = [
    ("int", 0), ("float", 0), ("bool", 0), ("str", 0), ("PositiveInt", 0), ("Literal[1,'a']", 0), ("Color", 0),
    (["Optional", "int"], 0), (["List", "float"], 1), (["Dict", "int"], 1), (["TupleVar", "int"], 1), (["Set", "int"], 1), (["Tuple", "int"], 1),
    (["Union", "int", "str"], 0), (["Union", "float", "bool", "None"], 0), (["List", ["Optional", "int"]], 1), (["Union", ["List", "int"], "int"], 1),
    (["Optional", "Color"], 0), (["List", "Color"], 1), (["Dict", ["Optional", "int"]], 1),
]


def main(rep, tier):
    rep.functions = FUNCTIONS
    rep.stubs = [FORMAT_STUBS_NOTE, TEXT_STUB_NOTE]
    rep.rule = ("one path per branch of parse_object/validate/dump on the shape's symbolic leaves, kinds and lengths; non-trivial = configuration accepted "
                "and all four fixed-point comparisons made")
    shapes = [s for s in shapes_for(tier) if s.note != "native"]
    rep.bounds = dict(shapes=[s.name for s in shapes], kernel_types=len(KERNEL_SPECS), list_lengths="<=2", byte_identity="thorough tier, window [-1,0,1,2]")
    rep.assumptions = [
        "byte identity of the text is checked only on solver-chosen concrete leaves (thorough tier); in the quick tier the dict that dump is about to serialise "
        "stands for the text (normal form of the dict)",
        "str leaves from fixed menus; floats as reals; restricted ints from a window; Path types are outside (file system)",
    ]
    from ..shapes import shard_jobs

    jobs = [dict(module="c10", func="fixpoint", kwargs=dict(shape=s.name, **sj), timeout=240 if tier == "quick" else 900) for s in shapes for sj in shard_jobs(s.name)]
    jobs += [dict(module="c10", func="kernel", kwargs=dict(spec=sp, depth=d), timeout=200) for sp, d in KERNEL_SPECS]
    jobs.append(dict(module="c10", func="from_files", kwargs={}, timeout=300))
    jobs.append(dict(module="c10", func="argv_channel", kwargs={}, timeout=300, max_fail_samples=40))
    e2e = [dict(module="c01", func="e2e_factory", kwargs=dict(shape="registered", skip_default=False), timeout=300),
           dict(module="c01", func="e2e_factory", kwargs=dict(shape="strings", skip_default=False), timeout=300, max_fail_samples=60)]
    if tier == "thorough":
        e2e = [dict(module="c01", func="e2e_factory", kwargs=dict(shape=s.name, skip_default=False), timeout=600) for s in shapes_for(tier)]
    results = run_jobs(jobs + e2e)
    fails = absorb(rep, results[: len(jobs)], require_tags=("accepted",))
    if e2e:
        f2 = absorb(rep, results[len(jobs):], require_exhausted=False)
        rep.extra["e2e_not_exhausted"] = [r["kwargs"] for r in results[len(jobs):] if not r.get("exhausted")]
        for k, v in f2.items():
            fails.setdefault(k, []).extend(v)
    groups = {}
    for cls, samples in fails.items():
        for smp in samples:
            groups.setdefault((cls, smp["harness"], json.dumps(smp["kwargs"], sort_keys=True)), []).append(smp)
    for (cls, hname, kws), samples in groups.items():
        reported = False
        for smp in samples:
            mod = "c01" if hname == "e2e_factory" else "c10"
            payload = dict(module=mod, func=hname, kwargs=smp["kwargs"], ordered=smp["values"].get("__order__", []))
            r = run_native("ch", "replay_path", payload)
            vals = dict(harness=hname, shape=smp["kwargs"].get("shape", ""), kwargs=kws, info=json.dumps(smp["info"], default=repr), replay=r.get("detail", ""))
            if not r.get("reproduced"):
                rep.inconc(f"counterexample {cls} ({hname} {kws}) did not reproduce natively: {smp['info']} -> {r}")
                continue
            if smp["kwargs"].get("shape") == "strings":
                from ..shapes import _TEXT_MENU

                vals["input"] = ascii(_TEXT_MENU[smp["values"].get("text", 0)]) + " at position %s" % smp["values"].get("where")
            if hname == "e2e_factory" and "byte-identical" not in r.get("detail", "") and smp["kwargs"].get("shape") not in ("registered", "strings"):
                continue  # round-trip failures through the text belong to C01 and are reported there (registered types: here too)
            known = rep.match_finding(cls, vals)
            if known:
                rep.known_finding(known, f"{cls} {kws}")
            elif not reported:
                rep.violation(f"{cls} ({hname} {kws}): {smp['info']} :: {r.get('detail')}", dict(module="ch", func="replay_path", payload=payload, cls=cls))
                reported = True
