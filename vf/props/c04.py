"""C04 — sources override each other in the documented order, left to right.

E-CH/api. One presence bit per (source, key kind) chosen by the solver, a symbolic int through the
object channel (namespace=), the order of the command line items chosen by the solver; files and
environment variables are really written per path. Oracle: a reference fold over the sources in
the documented order (replace / append / set-item).
"""
import itertools
import json
import os
import shutil
import tempfile

from ..ch import S, Fail, absorb, run_jobs
from ..common import run_native

FUNCTIONS = [
    "jsonargparse._core.ArgumentParser._parse_defaults_and_environ/get_defaults/_get_default_config_files/_load_env_vars/parse_args/parse_env/parse_string/parse_object/merge_config",
    "jsonargparse._actions.ActionConfigFile.apply_config; jsonargparse._typehints.ActionTypeHint.apply_appends/__call__; jsonargparse._namespace.Namespace.update",
    "jsonargparse._formatters.get_env_var",
]

KINDS = ["flat", "nested", "list", "dict", "str", "ulist"]
LISTY = ("list", "ulist")  # ulist: Union[int, List[int]], appended to with scalars
KEY = {"flat": "a", "nested": "g.b", "list": "l", "dict": "d", "str": "s", "ulist": "ul"}
ENV = {"flat": "APP_A", "nested": "APP_G__B", "list": "APP_L", "dict": "APP_D", "str": "APP_S", "ulist": "APP_UL"}
DEFAULT = {"flat": 1, "nested": 2, "list": [0], "dict": {"z": 0}, "str": "d0", "ulist": [0]}
ARGV_ITEMS = ["cfg1", "opt", "extra", "cfg2"]  # extra = '+' append (list) / item assignment (dict) / second plain option (flat, nested)
ENV_MODES = ["default_env=True", "default_env=False", "JSONARGPARSE_DEFAULT_ENV"]
METHODS = ["parse_args", "parse_env", "parse_string", "parse_object"]


def _parser(default_files, env_mode):
    from typing import Dict, List

    from jsonargparse import ActionConfigFile, ArgumentParser

    p = ArgumentParser(exit_on_error=False, prog="app", default_env=(env_mode == "default_env=True"), default_config_files=default_files)
    p.add_argument("--cfg", action=ActionConfigFile)
    p.add_argument("--a", type=int, default=1)
    p.add_argument("--g.b", type=int, default=2)
    p.add_argument("--l", type=List[int], default=[0])
    p.add_argument("--d", type=Dict[str, int], default={"z": 0})
    p.add_argument("--s", type=str, default="d0")
    from typing import Union

    p.add_argument("--ul", type=Union[int, List[int]], default=[0])  # a scalar member written before the list member
    return p


def _assign(kind, n, append=False, item=None):
    """The (key, python value) a source holding number n assigns."""
    if kind in ("flat", "nested"):
        return KEY[kind], n
    if kind == "str":
        return "s", ("" if n == 0 else f"v{n}")  # n == 0: the empty string, a value like any other
    if kind == "list":
        return ("l+" if append else "l"), [n, n + 100]
    if kind == "ulist":
        return ("ul+", n) if append else ("ul", [n, n + 100])
    if item:
        return f"d.{item}", n
    return "d", {f"k{n}": n}


def _yaml(kind, n, append=False):
    key, val = _assign(kind, n, append)
    if kind == "nested":
        return "g:\n  b: %d\n" % val
    return f"{key}: {json.dumps(val)}\n"


def fold(state, kind, op, n, item=None):
    """Reference semantics of one assignment on the value built so far."""
    if op == "replace":
        _, val = _assign(kind, n)
        return val
    if op == "append":
        return list(state) + ([n] if kind == "ulist" else [n, n + 100])
    if op == "item":
        d = dict(state)
        d[item] = n
        return d
    raise ValueError(op)


def _once(kind, bits, env_mode, method, order, ns_val):
    """bits: dict of presence flags. Returns True / Fail / None."""
    from jsonargparse import ArgumentError, Namespace

    root = tempfile.mkdtemp(prefix="c04_")
    saved_env = dict(os.environ)
    try:
        files = []
        f1 = os.path.join(root, "d1.yaml")
        if bits["dflt1"]:
            with open(f1, "w") as f:
                f.write(_yaml(kind, 11))
        f2 = os.path.join(root, "pat_x.yaml")
        if bits["dflt2"]:
            with open(f2, "w") as f:
                f.write(_yaml(kind, 12, append=(kind in LISTY)))
        if bits.get("dir_matches_pattern"):
            os.makedirs(os.path.join(root, "pat_dir.yaml"))  # a directory that the pattern matches too: not a config file, nothing to apply
        files = [f1, os.path.join(root, "pat_*.yaml")]
        if bits.get("dflt1_again"):
            files.append(f1)  # the same file listed a second time, after the pattern: it is applied again, in its place
        env = {}
        if bits["envcfg"]:
            env["APP_CFG"] = _yaml(kind, 13, append=(kind in LISTY and bits.get("envcfg_append", False)))
        envvar_n = 0 if (kind == "str" and bits.get("envvar_empty")) else 14
        if bits["envvar"]:
            env[ENV[kind]] = json.dumps(_assign(kind, envvar_n)[1]) if kind != "str" else _assign(kind, envvar_n)[1]
        if env_mode == "JSONARGPARSE_DEFAULT_ENV":
            os.environ["JSONARGPARSE_DEFAULT_ENV"] = "true"
        os.environ.update(env)
        parser = _parser(files, env_mode)
        env_active = env_mode != "default_env=False" or method == "parse_env"
        # ---- reference fold
        exp = DEFAULT[kind]
        if bits["dflt1"]:
            exp = fold(exp, kind, "replace", 11)
        if bits["dflt2"]:
            exp = fold(exp, kind, "append" if kind in LISTY else "replace", 12)
        if bits.get("dflt1_again") and bits["dflt1"]:
            exp = fold(exp, kind, "replace", 11)
        if env_active and bits["envcfg"]:
            exp = fold(exp, kind, "append" if (kind in LISTY and bits.get("envcfg_append")) else "replace", 13)
        if env_active and bits["envvar"]:
            exp = fold(exp, kind, "replace", envvar_n)
        # ---- call
        key = KEY[kind]
        try:
            if method == "parse_args":
                ns = None
                if bits["namespace"]:
                    ns = Namespace()
                    ns[key] = _assign(kind, ns_val)[1] if kind != "flat" and kind != "nested" else ns_val
                    exp = fold(exp, kind, "replace", ns_val)
                argv = []
                for it in order:
                    if not bits[it]:
                        continue
                    if it == "cfg1":
                        argv += ["--cfg", _yaml(kind, 16, append=(kind in LISTY))]
                        exp = fold(exp, kind, "append" if kind in LISTY else "replace", 16)
                    elif it == "cfg2":
                        argv += ["--cfg", _yaml(kind, 18)]
                        exp = fold(exp, kind, "replace", 18)
                    elif it == "opt":
                        argv += [f"--{key}={json.dumps(_assign(kind, 17)[1]) if kind != 'str' else _assign(kind, 17)[1]}"]
                        exp = fold(exp, kind, "replace", 17)
                    elif it == "extra":
                        if kind in LISTY:
                            argv += ["--l+=[19, 119]" if kind == "list" else "--ul+=19"]
                            exp = fold(exp, kind, "append", 19)
                        elif kind == "dict":
                            argv += ["--d.k=19"]
                            exp = fold(exp, kind, "item", 19, item="k")
                        else:
                            argv += [f"--{key}=" + ("v19" if kind == "str" else "19")]
                            exp = fold(exp, kind, "replace", 19)
                cfg = parser.parse_args(argv, namespace=ns)
            elif method == "parse_env":
                cfg = parser.parse_env()
            elif method == "parse_string":
                if bits["cfg1"]:
                    text = _yaml(kind, 16, append=(kind in LISTY))
                    exp = fold(exp, kind, "append" if kind in LISTY else "replace", 16)
                else:
                    text = "{}"
                cfg = parser.parse_string(text)
            else:
                obj = {}
                if bits["cfg1"]:
                    k_, v_ = _assign(kind, ns_val, append=(kind in LISTY))
                    obj = {k_: v_} if kind != "nested" else {"g": {"b": v_}}
                    exp = fold(exp, kind, "append" if kind in LISTY else "replace", ns_val)
                cfg = parser.parse_object(obj)
        except ArgumentError as ex:
            return Fail("precedence:parse-failed", kind=kind, method=method, msg=str(ex)[:200])
        got = cfg[key]
        if type(got) is not type(exp) or got != exp:
            return Fail("precedence:wrong-final-value", kind=kind, method=method, env_mode=env_mode, bits={k: v for k, v in bits.items() if v}, order=order)
        return True
    finally:
        os.environ.clear()
        os.environ.update(saved_env)
        shutil.rmtree(root, ignore_errors=True)


ORDERS = [list(p) for p in itertools.permutations(ARGV_ITEMS)]


def precedence(kind, method, env_mode, permute=False, shard=None, nshards=1, fixed=None):
    _once(kind, dict(dflt1=False, dflt2=False, dflt1_again=False, envcfg=False, envvar=False, namespace=False, cfg1=False, opt=False, extra=False, cfg2=False), env_mode, method, ARGV_ITEMS, 5)

    def harness():
        bits = {}
        names = ["dflt1", "dflt2", "dflt1_again", "envcfg", "envvar"]
        if method == "parse_args":
            names += ["namespace", "cfg1", "opt", "extra", "cfg2"]
        elif method in ("parse_string", "parse_object"):
            names += ["cfg1"]
        for n in names:
            bits[n] = fixed[n] if (fixed and n in fixed) else S.flag(n)  # a shard fixes the first presence bits
        for n in ("namespace", "cfg1", "opt", "extra", "cfg2"):
            bits.setdefault(n, False)
        if kind in LISTY and bits["envcfg"]:
            bits["envcfg_append"] = S.flag("envcfg_append")
        if kind == "str" and bits["envvar"]:
            bits["envvar_empty"] = S.flag("envvar_empty")
        if kind == "flat" and (bits["dflt1"] or bits["dflt2"]):
            bits["dir_matches_pattern"] = S.flag("dir_matches_pattern")
        order = ARGV_ITEMS
        if permute and method == "parse_args":
            order = ORDERS[S.choice("order", len(ORDERS))]
        if shard is not None and S.shard(nshards) != shard:
            return None
        symbolic = kind in ("flat", "nested") and ((method == "parse_args" and bits["namespace"]) or (method == "parse_object" and bits["cfg1"]))
        ns_val = S.int("ns_val") if symbolic else 15
        S.note(method)
        if symbolic or S.replaying is not None:
            return _once(kind, bits, env_mode, method, order, ns_val)
        from crosshair.tracers import NoTracing

        with NoTracing():  # nothing symbolic flows through this path: run it outside the tracer
            return _once(kind, bits, env_mode, method, order, ns_val)

    return harness


def main(rep, tier):
    rep.functions = FUNCTIONS
    rep.rule = ("one path per presence vector of the sources (and argv order in the thorough tier) x branch of the real code on the symbolic namespace int; "
                "non-trivial = the final value was compared with the reference fold")
    rep.bounds = dict(key_kinds=KINDS, sources=["defaults", "default config file", "second default config file via glob", "env config", "env variable",
                                               "namespace=", "--cfg text", "option", "'+' append / dict item / second option", "second --cfg text"],
                      methods=METHODS, env_modes=ENV_MODES, argv_orders=1 if tier == "quick" else 24)
    rep.assumptions = [
        "values in text sources are distinct concrete ints (text cannot be symbolic); the namespace= / object value is a symbolic int for flat and nested keys",
        "namespace= is folded between the environment and the command line (what the code documents for the base namespace)",
        "a dict value in a config replaces the dict; --d.k=v sets an item; 'l+' in a config or on argv appends",
        "ActionConfigFile inside sub-parsers, URLs/fsspec, jsonnet ext_vars are outside",
    ]
    jobs = []
    for kind in KINDS:
        for method in METHODS:
            modes = ENV_MODES if (tier == "thorough" or (kind == "flat" and method == "parse_args")) else ["default_env=True"]
            if method == "parse_env":
                modes = ["default_env=False"] if tier == "quick" else ["default_env=True", "default_env=False"]
            for em in modes:
                permute = tier == "thorough" and em == "default_env=True" and kind in ("flat", "list") and method == "parse_args"
                nfix = 1 if method != "parse_args" else (4 if not permute else 5)
                fixnames = ["dflt1", "dflt2", "dflt1_again", "envcfg", "envvar"][:nfix]
                for sh in range(2 ** nfix):
                    kw = dict(kind=kind, method=method, env_mode=em, permute=permute, fixed={n: bool(sh >> i & 1) for i, n in enumerate(fixnames)})
                    jobs.append(dict(module="c04", func="precedence", kwargs=kw, timeout=300 if tier == "quick" else 3000))
    results = run_jobs(jobs)
    fails = absorb(rep, results, require_tags=tuple(METHODS))
    groups = {}
    for cls, samples in fails.items():
        for smp in samples:
            v = smp["values"]
            groups.setdefault((cls, smp["kwargs"]["kind"], smp["kwargs"]["method"], bool(v.get("envcfg_append"))), []).append(smp)
    for (cls, kind, method, eca), samples in groups.items():
        reported = False
        for smp in samples:
            payload = dict(module="c04", func="precedence", kwargs=smp["kwargs"], ordered=smp["values"].get("__order__", []))
            r = run_native("ch", "replay_path", payload)
            vals = dict(kind=kind, method=method, envcfg_append=eca, info=json.dumps(smp["info"], default=repr))
            if not r.get("reproduced"):
                rep.inconc(f"counterexample {cls} ({kind}, {method}) did not reproduce natively: {smp['info']} -> {r}")
                continue
            known = rep.match_finding(cls, vals)
            if known:
                rep.known_finding(known, f"{cls} {kind} {method}")
            elif not reported:
                rep.violation(f"{cls} ({kind}, {method}): {smp['info']} :: {r.get('detail')}", dict(module="ch", func="replay_path", payload=payload, cls=cls))
                reported = True
