"""C09 — a parser's answers do not depend on what it was asked before.

E-CH/api; the history is the solver's input: an integer picks the operation at each of k steps.
After every step the outcome (result | ArgumentError text | exit status + stdout) on the reused
parser is compared with the outcome of the same operation on a parser freshly built by the same
factory; an untouched parser built before the history is compared at the end.
"""
import io
import json
import os
import shutil
import tempfile
from contextlib import redirect_stderr, redirect_stdout

from ..ch import S, Fail, absorb, run_jobs, untraced
from ..common import run_native

FUNCTIONS = [
    "jsonargparse._core.ArgumentParser.parse_args/parse_object/parse_string/parse_env/get_defaults/dump/validate/instantiate_classes/_parse_common",
    "jsonargparse._actions._ActionPrintConfig.__call__/print_config_if_requested, _ActionSubCommands.not_single_subcommand/handle_subcommands, ActionConfigFile.apply_config",
    "jsonargparse._common.parser_context; jsonargparse._typehints.ActionTypeHint.get_class_parser; jsonargparse._link_arguments.ActionLink.apply_parsing_links",
]

TWO_SECTIONS = "fit:\n  x: 1\ntest:\n  y: [2]\n"

OPS = [
    "parse_args_ok", "parse_args_fail", "help", "print_config", "print_config_then_invalid", "cfg_two_sections", "cfg_two_sections_implicit",
    "parse_object_ok", "parse_object_fail", "parse_string", "parse_env", "get_defaults", "dump", "validate", "instantiate", "sub_print_config_then_invalid",
    "print_config_then_help", "sub_print_config_then_help",
    "parse_args_class", "parse_string_fail",
    "nested_opt_k", "nested_opt_r",
    "parse_string_other_class", "parse_env_other_class", "parse_object_nodefaults_other_class", "cfg_fail_after_class", "parse_string_init_only",
    "help_callable_class", "help_class",
]
QUICK_OPS = OPS[:18] + OPS[20:]

_DEFAULT_DIR = [None]


def _factory():
    from typing import List, Optional

    from jsonargparse import ActionConfigFile, ArgumentParser

    from ..fixtures import Base, OptHolder

    if _DEFAULT_DIR[0] is None:
        d = os.path.join(tempfile.gettempdir(), "vf_c09_defaults2")  # fixed location: it shows up in --help output
        os.makedirs(d, exist_ok=True)
        tmp = os.path.join(d, f".defaults.{os.getpid()}")
        with open(tmp, "w") as f:
            f.write("a: 21\ntags+: [extra]\nopt: 2.5\nfit:\n  x: 9\n")
        os.replace(tmp, os.path.join(d, "defaults.yaml"))
        _DEFAULT_DIR[0] = d
    p = ArgumentParser(exit_on_error=False, prog="app", default_config_files=[os.path.join(_DEFAULT_DIR[0], "defaults.yaml")])
    p.add_argument("--cfg", action=ActionConfigFile)
    p.add_argument("--a", type=int, default=1)
    p.add_argument("--b", type=int, default=0)
    p.add_argument("--m", type=Base, default=None)
    # a class-typed argument whose default is a spec with init_args: a class change must not edit the declared default
    p.add_argument("--sd", type=Base, default={"class_path": "vf.fixtures.Sub1", "init_args": {"w": 5, "z": 0.75}})
    from typing import Callable

    p.add_argument("--fnarg", type=Optional[Callable[[int], Base]], default=None)  # its --fnarg.help skips the parameter the callable takes
    p.add_argument("--tags", type=List[str], default=["base"])
    p.add_argument("--opt", type=Optional[float], default=None)
    p.add_class_arguments(OptHolder, "grp")
    p.link_arguments("a", "b")
    fit = ArgumentParser(exit_on_error=False)
    fit.add_argument("--cfg", action=ActionConfigFile)
    fit.add_argument("--x", type=int, default=5)
    test = ArgumentParser(exit_on_error=False)
    test.add_argument("--y", type=List[int], default=[])
    sc = p.add_subcommands(required=True)
    sc.add_subcommand("fit", fit)
    sc.add_subcommand("test", test)
    return p


def _const_cfg():
    from jsonargparse import Namespace

    return Namespace(a=3, b=3, m=Namespace(class_path="vf.fixtures.Sub1", init_args=Namespace(w=2, z=0.5, k=4)), sd=Namespace(class_path="vf.fixtures.Sub1", init_args=Namespace(w=5, z=0.75, k=4)), tags=["t"], opt=None, subcommand="fit", fit=Namespace(x=4))


def _plain(v):
    from jsonargparse import Namespace, strip_meta

    if isinstance(v, Namespace):
        return ("ns", {k: _plain(x) for k, x in vars(strip_meta(v)).items()})
    if isinstance(v, dict):
        return ("dict", {k: _plain(x) for k, x in v.items()})
    if isinstance(v, (list, tuple)):
        return (type(v).__name__, [_plain(x) for x in v])
    if isinstance(v, (int, float, bool, str, type(None))):
        return v
    return ("obj", type(v).__name__, {k: _plain(x) for k, x in vars(v).items()} if hasattr(v, "__dict__") else repr(v))


def _run(parser, op, ints):
    """One operation; returns a comparable outcome."""
    from jsonargparse import ArgumentError

    out, err = io.StringIO(), io.StringIO()
    try:
        with redirect_stdout(out), redirect_stderr(err):
            if op == "parse_args_ok":
                r = parser.parse_args(["--a=3", "fit", "--x=4"])
            elif op == "parse_args_fail":
                r = parser.parse_args(["--a=bad", "fit"])
            elif op == "help":
                r = parser.parse_args(["--help"])
            elif op == "print_config":
                r = parser.parse_args(["--print_config", "fit"])
            elif op == "print_config_then_invalid":
                r = parser.parse_args(["--print_config", "--a=bad", "fit"])
            elif op == "sub_print_config_then_invalid":
                r = parser.parse_args(["fit", "--print_config", "--x=bad"])
            elif op == "print_config_then_help":
                r = parser.parse_args(["--print_config", "--help"])
            elif op == "sub_print_config_then_help":
                r = parser.parse_args(["fit", "--print_config", "--help"])
            elif op == "cfg_two_sections":
                r = parser.parse_args(["--cfg", TWO_SECTIONS, "test"])
            elif op == "cfg_two_sections_implicit":
                r = parser.parse_args(["--cfg", TWO_SECTIONS])
            elif op == "parse_object_ok":
                r = parser.parse_object({"a": ints[0], "subcommand": "fit", "fit": {"x": ints[1]}})
            elif op == "parse_object_fail":
                r = parser.parse_object({"a": "bad", "subcommand": "fit"})
            elif op == "parse_string":
                r = parser.parse_string("a: 5\nfit:\n  x: 6\n")
            elif op == "parse_string_fail":
                r = parser.parse_string("a: 5\nzz: 1\n")
            elif op == "parse_env":
                r = parser.parse_env({"APP_A": "7", "APP_SUBCOMMAND": "test", "APP_TEST__Y": "[1]"})
            elif op == "get_defaults":
                r = parser.get_defaults()
            elif op == "dump":
                r = parser.dump(_const_cfg())
            elif op == "validate":
                r = parser.validate(_const_cfg())
            elif op == "instantiate":
                r = parser.instantiate_classes(_const_cfg())
            elif op == "nested_opt_k":  # one member of an Optional[dataclass] value given by its dotted option ...
                r = parser.parse_args(["--grp.q.k=9", "fit"])
            elif op == "nested_opt_r":  # ... and another member in another parse: the first must not be remembered
                r = parser.parse_args(["--grp.q.r=0.5", "fit"])
            elif op == "parse_string_other_class":  # the key has no value yet when the other class arrives
                r = parser.parse_string("sd:\n  class_path: vf.fixtures.Sub2\nfit:\n  x: 6\n")
            elif op == "parse_env_other_class":
                r = parser.parse_env({"APP_SD": "vf.fixtures.Sub2", "APP_SUBCOMMAND": "fit"})
            elif op == "parse_object_nodefaults_other_class":
                r = parser.parse_object({"sd": {"class_path": "vf.fixtures.Sub2"}, "subcommand": "fit", "fit": {"x": 1}}, defaults=False)
            elif op == "cfg_fail_after_class":  # fails inside the text given to --cfg, after a class was chosen on the command line
                r = parser.parse_args(["--m=Sub1", "--cfg", "a: bad", "fit"])
            elif op == "parse_string_init_only":  # init_args without a class: an error unless something remembers a class
                r = parser.parse_string("m:\n  init_args:\n    z: 0.25\nfit:\n  x: 6\n")
            elif op == "help_callable_class":
                r = parser.parse_args(["--fnarg.help", "Sub1"])
            elif op == "help_class":
                r = parser.parse_args(["--m.help", "Sub1"])
            elif op == "parse_args_class":
                r = parser.parse_args(["--m=Sub1", "--m.w=8", "test", "--y=[3]"])
            else:
                raise RuntimeError(op)
        return ("ok", _plain(r), _prog(out.getvalue()))
    except ArgumentError as ex:
        return ("ArgumentError", str(ex)[:300], _prog(out.getvalue()))
    except SystemExit as ex:
        return ("exit", ex.code, _prog(out.getvalue()), _prog(err.getvalue())[-200:])
    except (TypeError, KeyError, ValueError) as ex:
        return ("raised:" + type(ex).__name__, str(ex)[:300])


def _prog(text):
    """Help parsers created on the fly take the name of the running script: not part of the compared outcome."""
    import re

    return re.sub(r"(?m)^usage: (worker|native|run)\.py", "usage: PROG", text)


def _same_outcome(a, b):
    if len(a) != len(b) or a[0] != b[0]:
        return False
    return all(_deep_eq(x, y) for x, y in zip(a[1:], b[1:]))


def _deep_eq(x, y):
    if isinstance(x, (tuple, list)) and isinstance(y, (tuple, list)):
        return len(x) == len(y) and all(_deep_eq(a, b) for a, b in zip(x, y))
    if isinstance(x, tuple) and isinstance(y, tuple):
        return len(x) == len(y) and all(_deep_eq(a, b) for a, b in zip(x, y))
    if isinstance(x, dict) and isinstance(y, dict):
        return list(x.keys()) == list(y.keys()) and all(_deep_eq(x[k], y[k]) for k in x)
    if isinstance(x, list) and isinstance(y, list):
        return len(x) == len(y) and all(_deep_eq(a, b) for a, b in zip(x, y))
    if type(x) is not type(y) and not (isinstance(x, int) and isinstance(y, int)):
        return False
    return x == y


def _norm(o):
    return json.loads(json.dumps(o, default=repr))


def pristine_outcome(payload):
    """Outcome of one operation on a fresh parser in a fresh process (nothing was asked before, of any parser)."""
    return dict(outcome=_norm(_run(_factory(), payload["op"], [1, 2])))


def history(k, ops, first=None, fresh_file=None):
    ops = list(ops)
    with open(fresh_file) as f:
        fresh = json.load(f)
    for op in ops:  # warm-up on throw-away parsers (lazy registrations, caches)
        _run(_factory(), op, [1, 2])

    def _concrete(fn, *a):
        # everything but the object operation is concrete: run it outside the tracer (same code, no symbolic values involved)
        if S.replaying is not None:
            return fn(*a)
        from crosshair.tracers import NoTracing

        with NoTracing():
            return fn(*a)

    def harness():
        untouched = _concrete(_factory)
        reused = _concrete(_factory)
        hist = []
        for step in range(k):
            if step == 0 and first is not None:
                op = ops[first]
            else:
                op = ops[S.choice(f"op{step}", len(ops))]
            ints = [S.int(f"i{step}a"), S.int(f"i{step}b")] if op == "parse_object_ok" else [0, 0]
            hist.append(op)
            S.note(op)
            got = _run(reused, op, ints) if op == "parse_object_ok" else _concrete(_run, reused, op, ints)
            # reference: the same operation on a fresh parser. For concrete operations it was computed once, in a process
            # of its own, so that state kept outside the parser (context variables, caches) cannot hide in both sides.
            if op == "parse_object_ok":
                want = _run(_factory(), op, ints)
            else:
                want, got = fresh[op], _norm(got)
            S.note("outcome:" + want[0])
            if not _same_outcome(got, want):
                return Fail("history:outcome-differs-from-fresh-parser", history=list(hist), step=step, reused=_short(got), fresh=_short(want))
        probe = "parse_args_ok" if "parse_args_ok" in ops else ops[0]
        got = _norm(_concrete(_run, untouched, probe, [1, 2]))
        want = fresh[probe]
        if not _same_outcome(got, want):
            return Fail("history:other-parser-in-the-process-affected", history=list(hist), probe=probe, untouched=_short(got), fresh=_short(want))
        return True

    return harness


# ---- a second factory: a group linked (no compute_fn) into an init arg that the selectable classes type differently -------------

LINK_OPS = ["struct", "dict", "struct_obj", "dict_obj", "no_class", "defaults"]


def _link_factory():
    from jsonargparse import ArgumentParser

    from ..fixtures import DataGroup, LModel

    p = ArgumentParser(exit_on_error=False)
    p.add_class_arguments(DataGroup, "data")
    p.add_subclass_arguments(LModel, "model", required=False)
    p.link_arguments("data", "model.init_args.data_cfg")
    return p


def _link_run(parser, op):
    from jsonargparse import ArgumentError

    try:
        if op == "struct":
            r = parser.parse_args(["--model=LModelStruct", "--data.batch=2"])
        elif op == "dict":
            r = parser.parse_args(["--model=LModelDict", "--data.batch=3"])
        elif op == "struct_obj":
            r = parser.parse_object({"model": {"class_path": "vf.fixtures.LModelStruct"}, "data": {"shuffle": True}})
        elif op == "dict_obj":
            r = parser.parse_object({"model": {"class_path": "vf.fixtures.LModelDict"}, "data": {"shuffle": True}})
        elif op == "no_class":
            r = parser.parse_args(["--data.batch=5"])
        else:
            r = parser.get_defaults()
        return ("ok", _plain(r), parser.dump(r) if op != "defaults" else "")
    except ArgumentError as ex:
        return ("ArgumentError", str(ex)[:300], "")


def link_history(k=2):
    for op in LINK_OPS:
        _link_run(_link_factory(), op)

    def harness():
        hist = []
        with untraced():
            reused = _link_factory()
        for step in range(k):
            op = LINK_OPS[S.choice(f"op{step}", len(LINK_OPS))]
            hist.append(op)
            S.note(op)
            with untraced():
                got = _norm(_link_run(reused, op))
                want = _norm(_link_run(_link_factory(), op))
            S.note("outcome:" + want[0])
            if not _same_outcome(got, want):
                return Fail("history:outcome-differs-from-fresh-parser", history=list(hist), step=step, reused=_short(got), fresh=_short(want))
        return True

    return harness


def _short(o):
    return [str(x)[:120] for x in o]


def main(rep, tier):
    rep.functions = FUNCTIONS
    ops = QUICK_OPS if tier == "quick" else OPS
    k = 2 if tier == "quick" else 3
    rep.rule = ("one path per history (operation per step) x branch of the real code on the symbolic ints of the object operation; non-trivial = every step's outcome "
                "was compared with the same operation on a fresh parser")
    rep.bounds = dict(history_length=k, operations=ops, factory="subcommands (required) with config arguments at both levels, default config file, class argument, parse link")
    rep.assumptions = [
        "operations whose outcome is text (dump, --print_config, --help) use concrete values; the object operation carries symbolic ints",
        "one parser factory; histories longer than the bound are outside",
        "outcome = result with meta stripped | ArgumentError text | exit status + stdout (+ tail of stderr)",
    ]
    from concurrent.futures import ThreadPoolExecutor

    with ThreadPoolExecutor(8) as ex:
        outs = list(ex.map(lambda op: run_native("props.c09", "pristine_outcome", dict(op=op))["outcome"], OPS))
    fresh_file = os.path.join(tempfile.gettempdir(), f"vf_c09_fresh_{os.getpid()}.json")
    with open(fresh_file, "w") as f:
        json.dump(dict(zip(OPS, outs)), f)
    rep.extra["pristine_outcomes"] = {op: o[0] for op, o in zip(OPS, outs)}
    jobs = [dict(module="c09", func="history", kwargs=dict(k=1, ops=ops, fresh_file=fresh_file), timeout=300)]
    if k >= 2:
        for i in range(len(ops)):
            jobs.append(dict(module="c09", func="history", kwargs=dict(k=2, ops=ops, first=i, fresh_file=fresh_file), timeout=600))
    if k >= 3:
        reduced = ["parse_args_ok", "parse_args_fail", "print_config", "print_config_then_invalid", "cfg_two_sections", "cfg_two_sections_implicit", "parse_object_ok",
                   "get_defaults", "parse_args_class", "help"]
        for i in range(len(reduced)):
            jobs.append(dict(module="c09", func="history", kwargs=dict(k=3, ops=reduced, first=i, fresh_file=fresh_file), timeout=3000))
    jobs.append(dict(module="c09", func="link_history", kwargs=dict(k=2 if tier == "quick" else 3), timeout=600))
    results = run_jobs(jobs)
    fails = absorb(rep, results, require_tags=tuple(ops) + ("outcome:ok", "outcome:ArgumentError", "outcome:exit"))
    groups = {}
    for cls, samples in fails.items():
        for smp in samples:
            hist = smp["info"].get("history", [])
            groups.setdefault((cls, any(h.endswith(("print_config_then_invalid", "print_config_then_help")) for h in hist[:-1])), []).append(smp)
    for (cls, poisoned), samples in groups.items():
        reported = False
        for smp in samples[:6]:
            payload = dict(module="c09", func=smp["harness"], kwargs=smp["kwargs"], ordered=smp["values"].get("__order__", []))
            r = run_native("ch", "replay_path", payload)
            vals = dict(after_failed_print_config=poisoned, history=json.dumps(smp["info"].get("history")), info=json.dumps(smp["info"], default=repr))
            if not r.get("reproduced"):
                rep.inconc(f"counterexample {cls} did not reproduce natively: {smp['info']} -> {r}")
                continue
            known = rep.match_finding(cls, vals)
            if known:
                rep.known_finding(known, f"{cls} {smp['info'].get('history')}")
            elif not reported:
                rep.violation(f"{cls}: history {smp['info'].get('history')} :: {r.get('detail')}", dict(module="ch", func="replay_path", payload=payload, cls=cls))
                reported = True
    try:
        os.unlink(fresh_file)
    except OSError:
        pass
