"""C20 — restricted and registered scalar types validate exactly, serialise losslessly.

kernel (E-CH):  the real validation function of restricted number types on a symbolic value,
                symbolic integer references, solver-chosen operators and join.
ctor (E-CH):    TypeCore.__new__ through predefined and generated types on solver-chosen
                concrete values around the references (int.__new__ concretises).
E-SMT:          restricted string types (live _regex), range (live re_range_*), timedelta
                (patterns captured from the live deserializer): output language of the
                serializer is included in the language the deserializer accepts.
values (E-CH):  registered types round trip through serializer/deserializer and through
                parse/dump/parse on solver-chosen concrete values (menus/windows).
"""
import operator
import re
import types

import z3

from .. import rx
from ..ch import S, Fail, absorb, native, run_jobs
from ..common import Inconclusive, run_native

FUNCTIONS = [
    "jsonargparse.typing.restricted_number_type.<validation_fn>, extend_base_type.TypeCore.__new__, restricted_string_type.<validation_fn>",
    "jsonargparse.typing.RegisteredType.deserializer/serializer for range, timedelta, Decimal, complex, bytes, bytearray, UUID, SecretStr, pathlib paths",
    "jsonargparse.typing.range_serializer/range_deserializer/re_range_*, timedelta_deserializer (patterns captured live)",
    "jsonargparse._typehints.adapt_typehints (registered-type branch) via parse_object/dump/parse_string/parse_args",
]

OPS = [("gt", operator.gt), ("ge", operator.ge), ("lt", operator.lt), ("le", operator.le), ("eq", operator.eq), ("ne", operator.ne)]

# ------------------------------------------------------------------------------ kernel


def _validation_fn():
    from jsonargparse.typing import PositiveInt

    fn = PositiveInt._validation_fn
    return getattr(fn, "__func__", fn)


def restricted_kernel(base, n, join):
    fn = _validation_fn()
    base_t = int if base == "int" else float

    def harness():
        comps = []
        for i in range(n):
            name, op = OPS[S.choice(f"op{i}", len(OPS))]
            comps.append((name, op, S.int(f"ref{i}")))
        # (float values for the int base type go through float.is_integer, C code that concretises: they are
        # candidates of the constructor check instead)
        kind = S.pick("kind", ["int", "bool"] if base == "int" else ["int", "bool", "float"])
        if kind == "int":
            v = S.int("v")
        elif kind == "bool":
            v = S.bool("v")
        elif kind == "integral-float":
            v = float(S.int("v"))
        elif kind == "half-float":
            v = S.int("v") + 0.5
        else:
            v = S.float("v")
        cls = types.SimpleNamespace(_type=base_t, _restrictions=[(op, ref) for _, op, ref in comps], _join=join, _expression="<expr>")
        try:
            fn(cls, v)
            accepted = True
        except ValueError:
            accepted = False
        # oracle
        if kind == "bool":
            exp = False
        elif kind == "half-float":
            exp = False
        else:
            checks = []
            for name, op, ref in comps:
                checks.append(op(v, ref))
            exp = all(checks) if join == "and" else any(checks)
        S.note("accept" if exp else "reject")
        if accepted != bool(exp):
            return Fail("restricted:wrong-verdict", base=base, kind=kind, join=join, ops=[c[0] for c in comps], accepted=accepted)
        return True

    return harness


# ------------------------------------------------------------------------------ constructor


def _ctor_types():
    import jsonargparse.typing as T

    out = [("PositiveInt", T.PositiveInt, int, lambda v: v > 0), ("NonNegativeInt", T.NonNegativeInt, int, lambda v: v >= 0),
           ("PositiveFloat", T.PositiveFloat, float, lambda v: v > 0), ("NonNegativeFloat", T.NonNegativeFloat, float, lambda v: v >= 0),
           ("ClosedUnitInterval", T.ClosedUnitInterval, float, lambda v: 0 <= v <= 1), ("OpenUnitInterval", T.OpenUnitInterval, float, lambda v: 0 < v < 1)]
    out.append(("int_gt1_and_le3", T.restricted_number_type(None, int, [(">", 1), ("<=", 3)]), int, lambda v: 1 < v <= 3))
    out.append(("int_lt0_or_eq2", T.restricted_number_type(None, int, [("<", 0), ("==", 2)], join="or"), int, lambda v: v < 0 or v == 2))
    out.append(("float_ne0_and_ge_m1", T.restricted_number_type(None, float, [("!=", 0.0), (">=", -1.0)]), float, lambda v: v != 0 and v >= -1))
    return out


CANDIDATES = [-2, -1, 0, 1, 2, 3, 4, 0.0, 0.5, 1.0, 1.5, -1.0, 2.0, 3.0, True, False, "3", "-1", "0.5", "x", "", "1e2", " 2 ", None, [1], float("nan"), float("inf")]


def _ctor_once(ti, ci):
    name, T, base, pred = _ctor_types()[ti]
    v = CANDIDATES[ci]
    # oracle: converts to the base type and satisfies the comparisons
    exp = False
    conv = None
    if not isinstance(v, bool):
        try:
            if base is int and isinstance(v, float) and not float.is_integer(v):
                raise ValueError
            conv = base(v)
            exp = bool(pred(conv))
        except (ValueError, TypeError, OverflowError):
            exp = False
    try:
        got = T(v)
        accepted = True
    except ValueError:
        accepted = False
    except TypeError:
        accepted = False
    S.note("accept" if exp else "reject")
    if accepted != exp:
        return Fail("ctor:wrong-verdict", type=name, value=repr(v), accepted=accepted)
    if accepted:
        if type(got) is not T:
            return Fail("ctor:result-type", type=name, value=repr(v))
        if not (got == conv) or type(base(got)) is not base:
            return Fail("ctor:value-differs-from-base-cast", type=name, value=repr(v), got=repr(got))
        again = T(got)
        if not (again == got) or type(again) is not T:
            return Fail("ctor:cast-not-idempotent", type=name, value=repr(v))
    return True


def restricted_ctor():
    nt = len(_ctor_types())

    def harness():
        ti = S.choice("type", nt)
        ci = S.choice("candidate", len(CANDIDATES))
        if S.replaying is not None:
            return _ctor_once(ti, ci)
        from crosshair.tracers import NoTracing

        with NoTracing():
            return _ctor_once(ti, ci)

    return harness


# ------------------------------------------------------------------------------ registered values

MASK = "**********"


def _value_menu():
    import pathlib
    import uuid
    from datetime import timedelta
    from decimal import Decimal

    from jsonargparse.typing import SecretStr

    win = [-4, -3, -2, -1, 0, 1, 2, 3, 4]
    menu = {}
    menu["range"] = (range, [range(a, b, c) for a in (-4, -1, 0, 2) for b in (-3, 0, 1, 4) for c in (-2, -1, 1, 3)] + [range(0), range(5), range(1, 1)])
    menu["timedelta"] = (timedelta, [timedelta(days=d, seconds=s, microseconds=u) for d in (-2, -1, 0, 1, 2, 400) for s in (0, 1, 59, 3600, 86399) for u in (0, 1, 999999)])
    menu["Decimal"] = (Decimal, [Decimal(c).scaleb(e) for c in (-19, -1, 0, 1, 3, 15, 123456789012345678) for e in (-3, -1, 0, 2)])
    menu["complex"] = (complex, [complex(a, b) for a in (-1.5, 0.0, 2.0, 1e16) for b in (-1.0, 0.0, 0.5)])
    menu["bytes"] = (bytes, [bytes(x) for x in ([], [0], [255], [0, 1], [1, 2, 3], [255, 254, 253, 252], list(range(7)))])
    menu["bytearray"] = (bytearray, [bytearray(x) for x in ([], [0], [255, 0], [9, 8, 7])])
    menu["UUID"] = (uuid.UUID, [uuid.UUID(int=i) for i in (0, 1, 2**127, 2**128 - 1)])
    menu["PosixPath"] = (pathlib.Path, [pathlib.Path(p) for p in ("a", "/x/y", ".", "a/../b", "~")])
    menu["SecretStr"] = (SecretStr, [SecretStr(s) for s in ("hunter2", "", "**********", "1")])
    return menu


def _eq(a, b):
    if isinstance(a, complex) and isinstance(b, complex):
        return a == b or (a != a and b != b)
    return type(a) is type(b) and a == b


def _value_once(tname, idx):
    from jsonargparse import ArgumentParser
    from jsonargparse.typing import get_registered_type

    T, values = _value_menu()[tname]
    v = values[idx]
    reg = get_registered_type(T) or get_registered_type(type(v))
    if reg is None:
        return Fail("registered:type-not-registered", type=tname)
    ser = reg.serializer(v)
    p = ArgumentParser(exit_on_error=False)
    p.add_argument("--x", type=T)
    if tname == "SecretStr":
        if ser != MASK or str(v) != MASK:
            return Fail("registered:secret-not-masked", value=v.get_secret_value())
        cfg = p.parse_args(["--x=" + v.get_secret_value()])
        if not isinstance(cfg.x, T) or cfg.x.get_secret_value() != v.get_secret_value():
            return Fail("registered:secret-not-parsed", value=v.get_secret_value())
        for fmt in ("yaml", "json", "json_indented"):
            text = p.dump(cfg, format=fmt)
            if v.get_secret_value() not in ("", "1", MASK) and v.get_secret_value() in text:
                return Fail("registered:secret-in-dump", fmt=fmt)
            if MASK not in text:
                return Fail("registered:secret-mask-missing-in-dump", fmt=fmt)
        return True
    back = reg.deserializer(ser)
    if not _eq(back, v):
        return Fail("registered:serializer-deserializer-roundtrip", type=tname, value=repr(v), ser=repr(ser), back=repr(back))
    # through the parser: object -> dump -> parse_string, and command line with the serialised text
    cfg = p.parse_object({"x": v})
    if not _eq(cfg.x, v):
        return Fail("registered:parse_object-changes-value", type=tname, value=repr(v))
    for fmt in ("yaml", "json"):
        text = p.dump(cfg, format=fmt)
        cfg2 = p.parse_string(text)
        if not _eq(cfg2.x, v):
            return Fail("registered:dump-parse-roundtrip", type=tname, value=repr(v), fmt=fmt, text=text, back=repr(cfg2.x))
    cfg3 = p.parse_args(["--x=" + str(ser)])
    if not _eq(cfg3.x, v):
        return Fail("registered:command-line-roundtrip", type=tname, value=repr(v), arg=str(ser), back=repr(cfg3.x))
    # a parsed value belongs to the caller: what the caller does to it must not show in a later parse of the same text
    import copy

    reference = copy.deepcopy(v)
    first = p.parse_args(["--x=" + str(ser)]).x
    if isinstance(first, bytearray):
        first.extend(b"!")
    elif isinstance(first, list):
        first.append(0)
    again = p.parse_args(["--x=" + str(ser)]).x
    fresh = ArgumentParser(exit_on_error=False)
    fresh.add_argument("--x", type=T)
    other = fresh.parse_string(p.dump(cfg)).x
    if not _eq(again, reference) or not _eq(other, reference):
        return Fail("registered:later-parse-sees-what-the-caller-did-to-an-earlier-result", type=tname, value=repr(reference), again=repr(again), other=repr(other))
    if isinstance(again, (bytearray, list)) and again is first:
        return Fail("registered:two-parses-return-the-same-mutable-object", type=tname)
    return True


def registered_values(tname):
    n = len(_value_menu()[tname][1])

    def harness():
        idx = S.choice("value", n)
        S.note(tname)
        if S.replaying is not None:
            return _value_once(tname, idx)
        from crosshair.tracers import NoTracing

        with NoTracing():
            return _value_once(tname, idx)

    return harness


# ------------------------------------------------------------------------------ E-SMT

D = r"(?:0|[1-9][0-9]*)"
OUT_RANGE_INNER_NOSPACE = re.compile(rf"-?{D}(?:,-?{D}(?:,-?{D})?)?$")
OUT_TIMEDELTA = re.compile(r"(?:-?[0-9]+ days?, )?[0-9]{1,2}:[0-9]{2}:[0-9]{2}(?:\.[0-9]{6})?$")
OUT_TD_NODAYS = re.compile(r"[0-9]{1,2}:[0-9]{2}:[0-9]{2}(?:\.[0-9]{6})?$")
OUT_TD_DAYS = re.compile(r"-?[0-9]+ days?, [0-9]{1,2}:[0-9]{2}:[0-9]{2}(?:\.[0-9]{6})?$")


def _capture_timedelta_patterns():
    import jsonargparse.typing as T

    seen = []
    orig = re.match

    def spy(pattern, string, flags=0):
        seen.append((pattern, flags))
        return orig(pattern, string, flags)

    T.re.match = spy
    try:
        for text in ("1:02:03", "2 days, 1:02:03"):
            try:
                T.timedelta_deserializer(text)
            except Exception:
                pass
    finally:
        T.re.match = orig
    if len(seen) != 2:
        raise Inconclusive(f"timedelta_deserializer no longer calls re.match once per call (saw {len(seen)})")
    return [re.compile(p, f) for p, f in seen]


def replay_timedelta(payload):
    def run():
        from datetime import timedelta

        from jsonargparse import ArgumentParser

        text = payload["text"]
        m = re.match(r"(?:(-?\d+) days?, )?(\d+):(\d+):(\d+)(?:\.(\d+))?$", text)
        if not m:
            return None
        td = timedelta(days=int(m[1] or 0), hours=int(m[2]), minutes=int(m[3]), seconds=int(m[4]), microseconds=int(m[5] or 0))
        if str(td) != text:
            return None  # not an actual output of str(timedelta)
        p = ArgumentParser(exit_on_error=False)
        p.add_argument("--x", type=timedelta)
        cfg = p.parse_object({"x": td})
        back = p.parse_string(p.dump(cfg))
        if back.x != td:
            return Fail("registered:dump-parse-roundtrip", type="timedelta", text=text)
        return True

    return native(run)


def replay_range(payload):
    def run():
        from jsonargparse.typing import range_deserializer, range_serializer

        parts = [int(x) for x in payload["inner"].split(",")]
        r = range(*parts)
        if range_serializer(r)[6:-1].replace(" ", "") != payload["inner"]:
            return None
        if range_deserializer(range_serializer(r)) != r:
            return Fail("registered:serializer-deserializer-roundtrip", type="range", value=repr(r))
        return True

    return native(run)


def replay_string_type(payload):
    def run():
        import jsonargparse.typing as T

        cls = getattr(T, payload["type"])
        w = payload["word"]
        try:
            got = cls(w)
            acc = True
        except ValueError:
            acc = False
        if acc != payload["member"]:
            return Fail("restricted-str:wrong-verdict", type=payload["type"], word=w, accepted=acc)
        if acc and (got != w or type(got) is not cls or cls(got) != got):
            return Fail("restricted-str:cast-changes-value", type=payload["type"], word=w)
        return True

    return native(run)


def smt_layer(rep, tier):
    import jsonargparse.typing as T

    q = rx.Q(rep, cross_check=(tier == "thorough"))
    s = z3.String("s")
    nonl = z3.Not(z3.Contains(s, z3.StringVal("\n")))
    # --- restricted strings: the constructor accepts exactly L(_regex under .match)
    extra = T.restricted_string_type("VfThreeDigits", r"^[0-9]{3}$")
    extra2 = T.restricted_string_type("VfPrefix", r"ab+")
    # the API also takes compiled patterns: their flags are part of the pattern
    T.restricted_string_type("VfDotAll", re.compile(r"^a.c$", re.DOTALL))
    T.restricted_string_type("VfIgnoreCase", re.compile(r"^ab?c$", re.IGNORECASE))
    T.restricted_string_type("VfAscii", re.compile(r"^\d+$", re.ASCII))
    n_words = 25 if tier == "quick" else 120
    for name in ("Email", "NotEmptyStr", "VfThreeDigits", "VfPrefix", "VfDotAll", "VfIgnoreCase", "VfAscii"):
        cls = getattr(T, name)
        # the language is taken from the pattern the type was *created with* where the harness created it (flags included)
        created_with = {"VfDotAll": re.compile(r"^a.c$", re.DOTALL), "VfIgnoreCase": re.compile(r"^ab?c$", re.IGNORECASE), "VfAscii": re.compile(r"^\d+$", re.ASCII)}
        lang = rx.lang(created_with.get(name, cls._regex), "match")
        for member in (True, False):
            words = rx.members(lang, n_words, maxlen=10, neg=not member)
            if not member:
                words += rx.near_misses(lang, 8, maxlen=10)
            if not words:
                raise Inconclusive(f"no {'member' if member else 'non-member'} found for {name}")
            bad = None
            for w in words:
                res = replay_string_type(dict(type=name, word=w, member=member))
                if res.get("reproduced"):
                    bad = (w, res)
                    break
            rep.add_query(f"{name}: {len(words)} solver-generated {'members' if member else 'non-members'} through the real constructor", "unsat" if not bad else "sat", 0.0, solver="z3+replay")
            rep.nontrivial += 1
            if bad:
                rep.violation(f"restricted string type {name}: {bad[1].get('detail')}", dict(module="props.c20", func="replay_string_type", payload=dict(type=name, word=bad[0], member=member)))
    # --- range
    for pat in (OUT_RANGE_INNER_NOSPACE, T.re_range_stop, T.re_range_start_stop, T.re_range_start_stop_step):
        n, bad = rx.validate(pat, "match", n=25)
        if bad:
            raise Inconclusive(f"regex translation disagrees with re on {bad[:3]} for {pat.pattern}")
    acc = z3.Or(*[z3.InRe(s, rx.lang(p, "match")) for p in (T.re_range_stop, T.re_range_start_stop, T.re_range_start_stop_step)])
    block = []
    for _ in range(5):
        r, m = q.ask("range: L(serializer output, spaces removed) subset of the deserializer's three patterns (unbounded digits)", nonl,
                     z3.InRe(s, rx.lang(OUT_RANGE_INNER_NOSPACE, "match")), z3.Not(acc), *block)
        if r == "unsat":
            rep.nontrivial += 1
            break
        w = rx.decode(m.eval(s, model_completion=True))
        res = run_native("props.c20", "replay_range", dict(inner=w))
        if res.get("reproduced"):
            rep.violation(f"range text {w!r} is produced by the serializer but not accepted back: {res.get('detail')}", dict(module="props.c20", func="replay_range", payload=dict(inner=w)))
            break
        block.append(s != z3.StringVal(w))
    # --- timedelta
    pats = _capture_timedelta_patterns()
    n, bad = rx.validate(OUT_TIMEDELTA, "match", n=25)
    if bad:
        raise Inconclusive(f"regex translation disagrees with re on OUT_TIMEDELTA: {bad[:3]}")
    for p_ in pats:
        n, bad = rx.validate(p_, "match", n=25, extra=["1:02:03", "-1 day, 0:00:00", "2 days, 1:02:03.000004"])
        if bad:
            raise Inconclusive(f"regex translation disagrees with re on {p_.pattern}: {bad[:3]}")
    from datetime import timedelta

    for td in [timedelta(days=d, seconds=sec, microseconds=u) for d in (-400, -1, 0, 1, 7) for sec in (0, 5, 86399) for u in (0, 7)]:
        if not OUT_TIMEDELTA.match(str(td)):
            raise Inconclusive(f"output-language model of str(timedelta) misses {str(td)!r}")
    for pat in (OUT_TD_NODAYS, OUT_TD_DAYS):
        n, bad = rx.validate(pat, "match", n=25)
        if bad:
            raise Inconclusive(f"regex translation disagrees with re on {pat.pattern}: {bad[:3]}")
    for name, cons in (("timedelta: outputs without days subset of the h:m:s pattern", [z3.InRe(s, rx.lang(OUT_TD_NODAYS, "match")), z3.Not(z3.InRe(s, rx.lang(pats[0], "match")))]),
                       ("timedelta: outputs with days subset of the 'd days, h:m:s' pattern", [z3.InRe(s, rx.lang(OUT_TD_DAYS, "match")), z3.Not(z3.InRe(s, rx.lang(pats[1], "match")))])):
        block = []
        for _ in range(8):
            r, m = q.ask(name, nonl, *cons, *block)
            if r == "unsat":
                rep.nontrivial += 1
                break
            w = rx.decode(m.eval(s, model_completion=True))
            res = run_native("props.c20", "replay_timedelta", dict(text=w))
            if res.get("reproduced"):
                rep.violation(f"timedelta text {w!r} is produced by str() but not parsed back: {res.get('detail')}", dict(module="props.c20", func="replay_timedelta", payload=dict(text=w)))
                break
            block.append(s != z3.StringVal(w))
        else:
            rep.inconc(name + ": 8 models did not reproduce (output-language model too coarse)")


# ------------------------------------------------------------------------------ main


def main(rep, tier):
    rep.functions = FUNCTIONS
    rep.rule = ("kernel: one path per (comparison count, operators, join, value kind) and per branch of the real validation function on symbolic value and "
                "references; ctor/values: one path per solver-chosen concrete candidate; E-SMT: one evaluation per query")
    rep.bounds = dict(comparisons=2 if tier == "quick" else 3, operators=[o[0] for o in OPS], joins=["and", "or"], ctor_candidates=len(CANDIDATES),
                      value_menus={k: len(v[1]) for k, v in _value_menu().items()})
    rep.stubs = ["format() of symbolic numbers yields '<sym>' (error messages format the value)"]
    rep.assumptions = [
        "restricted number kernel: references are integers (also for the float base type); floats are modelled as reals (no rounding, no nan/inf in the kernel; "
        "nan/inf are candidates of the constructor check)",
        "the constructor and registered-value checks run on finite menus chosen by the solver (int.__new__, decimal, datetime, base64, uuid are C code and concretise)",
        "timedelta/range: inclusion of the serializer's output language in the deserializer's accepted language; output-language models validated on sample values",
        "complex, UUID, bytes, bytearray, pathlib: menu-level round trips only (stdlib codec pairs)",
    ]
    smt_layer(rep, tier)
    nc = 2 if tier == "quick" else 3
    jobs = [dict(module="c20", func="restricted_kernel", kwargs=dict(base=b, n=n, join=j), timeout=300 if tier == "quick" else 1500)
            for b in ("int", "float") for n in range(1, nc + 1) for j in ("and", "or")]
    jobs.append(dict(module="c20", func="restricted_ctor", kwargs={}, timeout=300))
    for tname in _value_menu():
        jobs.append(dict(module="c20", func="registered_values", kwargs=dict(tname=tname), timeout=300))
    results = run_jobs(jobs)
    fails = absorb(rep, results, require_tags=("accept", "reject"))
    groups = {}
    for cls, samples in fails.items():
        for smp in samples:
            groups.setdefault((cls, smp["harness"], str(smp["kwargs"])), []).append(smp)
    for (cls, hname, _), samples in groups.items():
        reported = False
        for smp in samples:
            payload = dict(module="c20", func=hname, kwargs=smp["kwargs"], ordered=smp["values"].get("__order__", []))
            r = run_native("ch", "replay_path", payload)
            vals = dict(harness=hname, type=smp["kwargs"].get("tname", ""), info=str(smp["info"]))
            if not r.get("reproduced"):
                rep.inconc(f"counterexample {cls} ({hname} {smp['kwargs']}) did not reproduce natively: {smp['info']} -> {r}")
                continue
            known = rep.match_finding(cls, vals)
            if known:
                rep.known_finding(known, f"{cls} {smp['info'].get('value', '')}")
            elif not reported:
                rep.violation(f"{cls} ({hname} {smp['kwargs']}): {smp['info']} :: {r.get('detail')}", dict(module="ch", func="replay_path", payload=payload, cls=cls))
                reported = True
