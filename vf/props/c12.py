"""C12 — auto_cli calls the component with exactly the parsed values.

E-CH/api. Signatures are configurations (a fixed module of functions and a class with methods;
single component, list of components, nested dict of components). Symbolic: one bool per parameter
"is it given" (on argv or through --config), an index selecting the component / method, symbolic
ints passed through set_defaults; the argv values themselves are concrete text.
"""
import json

from ..ch import S, Fail, absorb, run_jobs
from ..common import run_native
from ..stubs import FORMAT_STUBS_NOTE, install_format_stubs

FUNCTIONS = [
    "jsonargparse._cli.auto_cli/_add_component_to_parser/_add_subcommands/_run_component",
    "jsonargparse._signatures.SignatureArguments.add_function_arguments/add_class_arguments/add_method_arguments/_add_signature_parameter",
    "jsonargparse._core.ArgumentParser.parse_args/set_defaults/instantiate_classes",
]

LAYOUTS = ["single:f1", "single:f2", "single:f3", "single:K1", "list:f1,f3", "dict:grp(f1,f3),f2", "single:f4", "list:f4,f3", "single:f5", "list:f5,f1", "single:f6", "list:f6,f3",
           "single:f7", "list:f7,f3", "list:f1,K1"]


def _components(layout):
    from .. import cli_fixtures as F

    kind, spec = layout.split(":", 1)
    if kind == "single":
        return getattr(F, spec), [([], spec)]
    if kind == "list":
        names = spec.split(",")
        return [getattr(F, n) for n in names], [([n], n) for n in names]
    if layout == "dict:grp(f1,f3),f2":
        return {"grp": {"f1": F.f1, "f3": F.f3}, "f2": F.f2}, [(["grp", "f1"], "f1"), (["grp", "f3"], "f3"), (["f2"], "f2")]
    raise ValueError(layout)


def cli(layout, via_config=False):
    from jsonargparse import ArgumentError, auto_cli

    from .. import cli_fixtures as F

    install_format_stubs()
    components, targets = _components(layout)

    def harness():
        ti = S.choice("target", len(targets))
        prefix, tname = targets[ti]
        callees = [tname]
        method = None
        if tname == "K1":
            method = S.pick("method", ["m1", "m2"])
            callees = ["K1.__init__", "K1." + method]
        given, expected, missing_required = {}, {}, False
        defaults_arg = {}
        argv_opts = {c: [] for c in callees}
        argv_pos = {c: [] for c in callees}
        cfg_obj = {c: {} for c in callees}
        for c in callees:
            for prm in F.PARAMS[c]:
                pname, default, text, conv = prm[:4]
                is_given = S.flag(f"{c}.{pname}.given")
                if is_given:
                    expected[(c, pname)] = conv
                    if via_config:
                        cfg_obj[c][pname] = prm[4] if len(prm) > 4 else conv
                    elif default is F.REQUIRED:
                        argv_pos[c].append(text)
                    else:
                        argv_opts[c].append(f"--{pname}={text}")
                elif default is F.REQUIRED:
                    missing_required = True
                elif isinstance(default, int) and not isinstance(default, bool) and S.flag(f"{c}.{pname}.set_default"):
                    v = S.int(f"{c}.{pname}.default")
                    key = ".".join(prefix + ([method] if c.startswith("K1.m") else []) + [pname])
                    defaults_arg[key] = v
                    expected[(c, pname)] = v
                else:
                    expected[(c, pname)] = default
        # a positional given only if every earlier positional is given (argv is positional by order)
        argv = list(prefix)
        first = callees[0]
        if via_config:
            full = cfg_obj[first]
            if method:
                full = dict(full)
                full["subcommand"] = method  # the choice is named in the config (an empty section would not select it)
                if cfg_obj[callees[1]]:
                    full[method] = cfg_obj[callees[1]]
            argv_c = []
            if prefix:
                argv += [f"--config={json.dumps(full)}"] if len(prefix) == 1 else []
                if len(prefix) == 2:
                    argv = [prefix[0], prefix[1], f"--config={json.dumps(full)}"]
            else:
                argv = [f"--config={json.dumps(full)}"]
        else:
            pos_ok = True
            req = [p for p in F.PARAMS[first] if p[1] is F.REQUIRED]
            seen_missing = False
            for pname, default, text, conv in (r_[:4] for r_ in req):
                if (first, pname) in expected:
                    if seen_missing:
                        return None  # a later positional without the earlier one cannot be written on a command line
                else:
                    seen_missing = True
            argv += argv_opts[first] + argv_pos[first]
            if method:
                argv += [method] + argv_opts[callees[1]] + argv_pos[callees[1]]
        del F.CALLS[:]
        try:
            ret = auto_cli(components, args=argv, set_defaults=defaults_arg or None, exit_on_error=False)
            failed = False
        except ArgumentError:
            failed = True
        except TypeError as ex:
            return Fail("cli:component-call-raised-TypeError", layout=layout, target=tname, msg=str(ex)[:160])
        S.note("failed" if missing_required else "called")
        if failed != missing_required:
            return Fail("cli:wrong-accept-reject", layout=layout, target=tname, method=method, failed=failed, missing_required=missing_required, argv=argv)
        if failed:
            if F.CALLS:
                return Fail("cli:callee-ran-although-parsing-failed", calls=[c[0] for c in F.CALLS])
            return True
        names = [c[0] for c in F.CALLS]
        if names != callees:
            return Fail("cli:wrong-callees", layout=layout, want=callees, got=names)
        for (cname, kwargs), c in zip(F.CALLS, callees):
            want = {p[0]: expected[(c, p[0])] for p in F.PARAMS[c]}
            if sorted(kwargs) != sorted(want):
                return Fail("cli:callee-received-other-parameters", callee=c, got=sorted(kwargs), want=sorted(want))
            for k in want:
                a, b = kwargs[k], want[k]
                if type(a) is not type(b) and not (isinstance(a, int) and isinstance(b, int)) and not (isinstance(a, float) and isinstance(b, int) and not isinstance(b, bool)):
                    return Fail("cli:parameter-of-wrong-type", callee=c, param=k, got=type(a).__name__, want=type(b).__name__)
                if a != b:
                    return Fail("cli:parameter-bound-to-wrong-value", callee=c, param=k, given=(c, k) in given)
        last = F.CALLS[-1]
        if tname == "K1":
            init_kw = F.CALLS[0][1]
            want_ret = (method, init_kw["p"], init_kw["q"]) + tuple(last[1][p[0]] for p in F.PARAMS["K1." + method])
        else:
            want_ret = (tname,) + tuple(last[1][p[0]] for p in F.PARAMS[tname])
        if ret != want_ret:
            return Fail("cli:return-value-is-not-the-callees", layout=layout, target=tname)
        return True

    return harness


def main(rep, tier):
    rep.functions = FUNCTIONS
    rep.stubs = [FORMAT_STUBS_NOTE]
    rep.rule = ("one path per (layout, selected component/method, given-bit per parameter, set_defaults bit) x branch of the real code on the symbolic set_defaults ints; "
                "non-trivial = auto_cli ran and the call log and return value were compared")
    rep.bounds = dict(layouts=LAYOUTS, components=["f1(a, b=0.5, *, flag=False, name='n')", "f2(items: List[int], opt: Optional[float])", "f3(lit: Literal, n=3)",
                                                  "K1(p, q=2).m1(r=1) / .m2(s, t=None)"], via=["argv", "--config"])
    rep.assumptions = [
        "signatures are configurations: a fixed module of three functions and one class with two methods, in seven layouts (single, list, nested dict)",
        "argv values are concrete text; set_defaults ints are symbolic; required parameters are positionals on argv (a later positional needs the earlier ones)",
        "the components=None module-scan form, async callees, methods with a 'config' parameter are outside",
    ]
    jobs = []
    for layout in (LAYOUTS if tier == "thorough" else LAYOUTS[:14]):
        jobs.append(dict(module="c12", func="cli", kwargs=dict(layout=layout), timeout=600))
        if layout.startswith("single"):
            jobs.append(dict(module="c12", func="cli", kwargs=dict(layout=layout, via_config=True), timeout=600))
    results = run_jobs(jobs)
    fails = absorb(rep, results, require_tags=("called", "failed"))
    groups = {}
    for cls, samples in fails.items():
        for smp in samples:
            groups.setdefault((cls, json.dumps(smp["kwargs"], sort_keys=True)), []).append(smp)
    for (cls, kws), samples in groups.items():
        smp = samples[0]
        payload = dict(module="c12", func="cli", kwargs=smp["kwargs"], ordered=smp["values"].get("__order__", []))
        r = run_native("ch", "replay_path", payload)
        vals = dict(kwargs=kws, info=json.dumps(smp["info"], default=repr))
        if not r.get("reproduced"):
            rep.inconc(f"counterexample {cls} ({kws}) did not reproduce natively: {smp['info']} -> {r}")
            continue
        known = rep.match_finding(cls, vals)
        if known:
            rep.known_finding(known, f"{cls} {kws}")
        else:
            rep.violation(f"{cls} ({kws}): {smp['info']} :: {r.get('detail')}", dict(module="ch", func="replay_path", payload=payload, cls=cls))
