"""C01 — a dumped configuration re-parses to the same configuration.

text layer (E-SMT):    resolver tables of the Dumper class really used by yaml_dump and of the
                       default loader (and omegaconf's), output languages of the representers /
                       json encoder: z3 decides, over all strings, whether a scalar can be written
                       as one type and read as another.
adapter layer (E-CH):  parse_object(obj) -> dump (dict captured before the text) -> parse_object
                       with symbolic leaves on every parser shape, skip_default on and off.
"""
import io
import json
import os
import tempfile
from contextlib import redirect_stdout

import z3

from .. import rx
from .. import yamlart as ya
from ..ch import S, Fail, absorb, native, run_jobs
from ..common import Inconclusive, run_native
from ..shapes import BY_NAME, same, shapes_for
from ..stubs import FORMAT_STUBS_NOTE, TEXT_STUB_NOTE, capture_dump, install_format_stubs

FUNCTIONS = [
    "jsonargparse._loaders_dumpers.get_yaml_default_loader (implicit resolver table), yaml_dump (Dumper class + kwargs), dump_json_kwargs",
    "jsonargparse._core.ArgumentParser.parse_object/dump/_dump_cleanup_actions/_dump_delete_default_entries/parse_string/save/parse_path",
    "jsonargparse._typehints.ActionTypeHint.serialize/_check_type, adapt_typehints (both directions), adapt_class_type",
    "jsonargparse._link_arguments.ActionLink.strip_link_target_keys",
]
MAXLEN = 32


# ======================================================================== text layer


def _text_parser(mode="yaml"):
    from typing import Dict, List, Union

    from jsonargparse import ArgumentParser

    p = ArgumentParser(exit_on_error=False, parser_mode=mode)
    p.add_argument("--s", type=str, default="dflt")
    p.add_argument("--ls", type=List[str], default=[])
    p.add_argument("--d", type=Dict[str, int], default={})
    p.add_argument("--u", type=Union[float, str], default=0.0)
    p.add_argument("--f", type=float, default=0.0)
    p.add_argument("--i", type=int, default=0)
    return p


def _roundtrip_all(p, cfg):
    """Every documented serialisation route of cfg; returns list of (route, problem)."""
    from jsonargparse import ArgumentError

    bad = []
    for fmt in ("yaml", "json", "json_indented"):
        try:
            text = p.dump(cfg, format=fmt, skip_none=False)
            back = p.parse_string(text)
            r = same(cfg, back)
        except (ArgumentError, Exception) as ex:
            r = f"{type(ex).__name__}: {str(ex)[:150]}"
        if r:
            bad.append((f"dump:{fmt}", r))
    d = tempfile.mkdtemp(prefix="c01_")
    try:
        path = os.path.join(d, "out.yaml")
        try:
            p.save(cfg, path, skip_none=False)  # "with nulls kept": the default drops None entries
            back = p.parse_path(path)
            from jsonargparse import strip_meta

            r = same(cfg, strip_meta(back))
        except (ArgumentError, Exception) as ex:
            r = f"{type(ex).__name__}: {str(ex)[:150]}"
        if r:
            bad.append(("save+parse_path", r))
    finally:
        import shutil

        shutil.rmtree(d, ignore_errors=True)
    return bad


def replay_text(payload):
    """payload: value (str or float repr), kind in str|key|item|union|float, mode."""
    def run():
        p = _text_parser(payload.get("mode", "yaml"))
        kind, v = payload["kind"], payload["value"]
        if kind == "float":
            obj = {"f": float(v)}
        elif kind == "int":
            obj = {"i": int(v)}
        else:
            obj = {"s": v, "ls": [v, "b"], "d": {v: 1}, "u": v}
        cfg = p.parse_object(obj)
        if kind != "float" and kind != "int" and (cfg.s != v or cfg.u != v):
            return None  # not an accepted configuration holding the string
        bad = _roundtrip_all(p, cfg)
        if payload.get("routes"):
            bad = [b for b in bad if b[0] in payload["routes"]]
        if bad:
            return Fail("text:round-trip", routes=bad)
        return True

    return native(run)


def text_layer(rep, tier):
    art = ya.capture()
    rep.extra["dumper_class"] = f"{art['dumper_class'].__module__}.{art['dumper_class'].__qualname__}"
    rep.extra["dump_yaml_kwargs"] = {k: repr(v) for k, v in art["dump_kwargs"].items()}
    rep.extra["dump_json_kwargs"] = art["json_kwargs"]
    # --- translator + environment model validation
    tv = dict(patterns=0, words=0, mismatches=0)
    seen = set()
    tables = [art["loader_table"], art["dumper_table"]] + ([art["omegaconf_table"]] if art["omegaconf_table"] else [])
    for t in tables:
        for lst in t.values():
            for _, r in lst:
                if id(r) in seen:
                    continue
                seen.add(id(r))
                n, bad = rx.validate(r, "match", n=25 if tier == "quick" else 100)
                tv["patterns"] += 1
                tv["words"] += n
                tv["mismatches"] += len(bad)
                if bad:
                    raise Inconclusive(f"regex translation disagrees with Python's re on {bad[:3]} for {r.pattern[:60]!r}")
    for name in ("OUT_YAML_INT", "OUT_YAML_FLOAT", "OUT_JSON_FLOAT_FINITE", "OUT_JSON_FLOAT_NONFINITE", "JSON_NUMBER"):
        n, bad = rx.validate(getattr(ya, name), "match", n=25)
        tv["patterns"] += 1
        tv["words"] += n
        if bad:
            raise Inconclusive(f"regex translation disagrees with re on {bad[:3]} for {name}")
    allow_nan = art["json_kwargs"].get("allow_nan", True)
    n, bad = ya.validate_output_models(art, allow_nan)
    tv["output_model_samples"] = n
    if bad:
        raise Inconclusive(f"output-language model disagrees with the real dumper: {bad[:3]}")
    rep.extra["translator_validation"] = tv
    # resolver-term validation against PyYAML's own resolve on the validation words
    s = z3.String("s")
    ids = rx.all_tag_ids(*tables)
    tl = rx.tag_term(art["loader_table"], s, ids)
    td = rx.tag_term(art["dumper_table"], s, ids)
    to = rx.tag_term(art["omegaconf_table"], s, ids) if art["omegaconf_table"] else None
    words = ["", "1", "-1", "1.5", "1e3", "._", ".5", "0x1F", "0b1", "yes", "on", "null", "~", "2001-01-01", "=", "<<", "1_000", "+.inf", ".nan", "a", "0o7", "1:30", "١"]
    for w in words:
        for term, tab in ((tl, art["loader_table"]), (td, art["dumper_table"])):
            got = z3.simplify(z3.substitute(term, (s, z3.StringVal(w))))
            if got.as_long() != ids[rx.py_resolve(tab, w)]:
                raise Inconclusive(f"resolver encoding disagrees with PyYAML on {w!r}")
    q = rx.Q(rep, cross_check=(tier == "thorough"))
    bound = z3.And(z3.Length(s) <= MAXLEN, z3.Not(z3.Contains(s, z3.StringVal("\n"))))
    STR = ids[rx.STR_TAG]

    def decide(name, constraints, kind, mode="yaml", known_class=None, max_models=20, routes=None):
        """Ask; on sat replay the model; classify; block and continue."""
        extra = []
        for _ in range(max_models):
            r, m = q.ask(name, *constraints, *extra)
            if r == "unsat":
                return
            w = rx.decode(m.eval(s, model_completion=True))
            payload = dict(value=w, kind=kind, mode=mode, routes=routes)
            res = run_native("props.c01", "replay_text", payload)
            rep.extra.setdefault("replayed", []).append(dict(query=name, value=w, reproduced=bool(res.get("reproduced"))))
            if not res.get("reproduced"):
                extra.append(s != z3.StringVal(w))
                continue
            hit = None
            for e in rep.findings:
                if e.get("class") == known_class and e.get("language") and rx.in_lang(w, rx.lang(e["language"], "match")):
                    hit = e
            if hit:
                rep.known_finding(hit, f"witness {w!r}")
                rep.queries[-1]["result"] = "sat-known"
                extra.append(z3.Not(z3.InRe(s, rx.lang(hit["language"], "match"))))
                continue
            rep.violation(f"{name}: scalar {w!r} ({kind}, mode {mode}) does not survive dump -> parse: {res.get('detail')}",
                          dict(module="props.c01", func="replay_text", payload=payload))
            return
        rep.inconc(f"{name}: more than {max_models} solver models did not reproduce / were known; environment model too coarse")

    # Q1: a str the dumper writes plain (its resolver says str) but the loader reads as something else
    decide("Q1 yaml: dumper-tag(s)=str & loader-tag(s)!=str & plain-possible(s), |s|<=32",
           [bound, td == STR, tl != STR, ya.plain_possible(s)], "str", known_class="text:yaml-str-read-as-other")
    if tier == "thorough":
        decide("Q1u yaml, unbounded length", [td == STR, tl != STR, ya.plain_possible(s)], "str", known_class="text:yaml-str-read-as-other")
    # Q2/Q3: representer output of type T is read back as T
    for T, out in ((ya.INT_TAG, ya.OUT_YAML_INT), (ya.FLOAT_TAG, ya.OUT_YAML_FLOAT), (ya.BOOL_TAG, ya.OUT_YAML_BOOL), (ya.NULL_TAG, ya.OUT_YAML_NULL)):
        short = T.rsplit(":", 1)[1]
        r, _ = q.ask(f"W yaml {short}: output language non-empty", z3.InRe(s, rx.lang(out, "match")), bound)
        if r != "sat":
            raise Inconclusive(f"vacuous: output language of {short} is empty")
        rep.queries[-1]["result"] = "sat-expected"
        rep.nontrivial += 1
        decide(f"Q3 yaml {short}: L(representer) subset of loader-{short}", [bound, z3.InRe(s, rx.lang(out, "match")), tl != ids[T]],
               "float" if short == "float" else "int" if short == "int" else "str")
    # JSON output read by the yaml-mode loader (a yaml-mode parser must re-read its own json dumps)
    decide("Q3 json int: L(json int) subset of loader-int", [bound, z3.InRe(s, rx.lang(ya.OUT_JSON_INT, "match")), tl != ids[ya.INT_TAG]], "int",
           routes=["dump:json", "dump:json_indented"])
    jf = [rx.lang(ya.OUT_JSON_FLOAT_FINITE, "match")] + ([rx.lang(ya.OUT_JSON_FLOAT_NONFINITE, "match")] if allow_nan else [])
    decide("Q3 json float: L(json float incl. non-finite unless allow_nan=False) subset of loader-float",
           [bound, z3.InRe(s, rx._union(jf)), tl != ids[ya.FLOAT_TAG]], "float", known_class="text:json-float-nonfinite",
           routes=["dump:json", "dump:json_indented"])
    if to is not None:
        decide("Q3 json float under omegaconf loader", [bound, z3.InRe(s, rx._union(jf)), to != ids[ya.FLOAT_TAG]], "float", mode="omegaconf",
               known_class="text:json-float-nonfinite", routes=["dump:json", "dump:json_indented"])
        decide("Q1 omegaconf: dumper-tag(s)=str & omegaconf-loader-tag(s)!=str & plain-possible(s)",
               [bound, td == STR, to != STR, ya.plain_possible(s)], "str", mode="omegaconf", known_class="text:omegaconf-str-read-as-other")
    # witnesses: the interesting region is not empty
    r, _ = q.ask("W: some non-str plain scalar exists for the loader", bound, tl != STR)
    if r != "sat":
        raise Inconclusive("vacuous: loader never resolves a non-str tag")
    rep.queries[-1]["result"] = "sat-expected"
    rep.nontrivial += 1
    r, _ = q.ask("W: dumper quotes some string the loader would read as float", bound, td != STR, tl == ids[ya.FLOAT_TAG])
    rep.queries[-1]["result"] = "sat-expected" if r == "sat" else r
    rep.nontrivial += sum(1 for x in rep.queries if x["result"] == "unsat")


# ======================================================================== adapter layer


def adapter_factory(shape, skip_default=False, real_text=False, shard=None, nshards=1):
    """Like adapter() but warms up concretely first (lazy registrations, cached loaders)."""
    from jsonargparse import ArgumentError  # noqa: F401

    if not real_text:
        install_format_stubs()
    sh = BY_NAME[shape]
    parser = sh.build()
    try:
        parser.dump(parser.get_defaults(), skip_none=False)
    except Exception:
        pass
    return _mk_adapter(parser, sh, skip_default, real_text, shard, nshards)


def _mk_adapter(parser, sh, skip_default, real_text, shard=None, nshards=1):
    from jsonargparse import ArgumentError

    def harness():
        obj = sh.sym()
        if shard is not None and S.shard(nshards) != shard:
            return None
        try:
            cfg = parser.parse_object(obj)
        except ArgumentError:
            S.note("rejected")
            return None
        S.note("accepted")
        if real_text:
            bad = []
            for fmt in ("yaml", "json", "json_indented"):
                try:
                    text = parser.dump(cfg, format=fmt, skip_none=False, skip_default=skip_default)
                    back = parser.parse_string(text)
                    r = same(cfg, back)
                except Exception as ex:
                    r = f"{type(ex).__name__}: {str(ex)[:200]}"
                if r:
                    bad.append((fmt, r))
            if bad:
                return Fail("adapter:reparse-differs", routes=bad)
            return True
        try:
            D = capture_dump(parser, cfg, skip_none=False, skip_default=skip_default)
        except Exception as ex:
            return Fail("adapter:dump-raised", exc=type(ex).__name__, msg=str(ex)[:200])
        try:
            cfg2 = parser.parse_object(D)
        except ArgumentError as ex:
            return Fail("adapter:dump-not-accepted", msg=str(ex)[:200])
        r = same(cfg, cfg2)
        if r:
            return Fail("adapter:reparse-differs", where=r)
        return True

    return harness


def _e2e_native(parser, pc_parser, obj, skip_default):
    """Everything concrete, outside the tracer: all documented serialisation routes of one configuration."""
    from jsonargparse import ArgumentError, strip_meta

    try:
        cfg = parser.parse_object(obj)
    except ArgumentError:
        return None
    bad = []
    for fmt in ("yaml", "json", "json_indented"):
        try:
            text = parser.dump(cfg, format=fmt, skip_none=False, skip_default=skip_default)
            r = same(cfg, parser.parse_string(text))
            if not r and not skip_default:
                # normal form: dumping the re-parsed configuration gives byte-identical text (C10)
                text2 = parser.dump(parser.parse_string(text), format=fmt, skip_none=False)
                if text2 != text:
                    r = "dump(parse(dump)) is not byte-identical"
        except Exception as ex:
            r = f"{type(ex).__name__}: {str(ex)[:200]}"
        if r:
            bad.append((f"dump:{fmt}", r))
    # --print_config route (stdout captured), plain and with the skip_default flag
    try:
        text0 = parser.dump(cfg, skip_none=False)
        flag = "--print_config=skip_default" if skip_default else "--print_config"
        buf = io.StringIO()
        try:
            with redirect_stdout(buf):
                pc_parser.parse_args(["--cfg", text0, flag])
            r = "print_config did not exit"
        except SystemExit as ex:
            r = None if ex.code == 0 else f"print_config exit status {ex.code}"
        if not r:
            back = parser.parse_string(buf.getvalue())
            r = same(cfg, back)
    except Exception as ex:
        r = f"{type(ex).__name__}: {str(ex)[:200]}"
    if r:
        bad.append(("print_config", r))
    d = tempfile.mkdtemp(prefix="c01_")
    try:
        path = os.path.join(d, "out.yaml")
        try:
            parser.save(cfg, path, skip_none=False)  # "with nulls kept": the default drops None entries
            r = same(cfg, strip_meta(parser.parse_path(path)))
        except Exception as ex:
            r = f"{type(ex).__name__}: {str(ex)[:200]}"
        if r:
            bad.append(("save+parse_path", r))
    finally:
        import shutil

        shutil.rmtree(d, ignore_errors=True)
    if bad:
        return Fail("e2e:round-trip-through-text", routes=bad)
    return True


def e2e_factory(shape, skip_default=False, window=(-1, 0, 1, 2)):
    """Leaves are solver-chosen *concrete* members of a small window; the real text layer runs
    (emitter, C parser, print_config, save/parse_path) outside the tracer."""
    from jsonargparse import ActionConfigFile

    sh = BY_NAME[shape]
    parser = sh.build()
    pc_parser = sh.build()
    pc_parser.add_argument("--cfg", action=ActionConfigFile)

    def harness():
        S.window = list(window)
        try:
            obj = sh.sym()
        finally:
            S.window = None
        if S.replaying is not None:
            res = _e2e_native(parser, pc_parser, obj, skip_default)
        else:
            from crosshair.tracers import NoTracing

            with NoTracing():
                res = _e2e_native(parser, pc_parser, obj, skip_default)
        S.note("accepted" if res is not None else "rejected")
        return res

    return harness


def _defaults_change_once(mech, dump_before, old, new, val, skip_none=True):
    """skip_default dumps must be lossless against the defaults in force when the dump is re-parsed, also after the
    parser's defaults changed (default config file rewritten / re-assigned, set_defaults) between two dumps."""
    import shutil

    from jsonargparse import ArgumentParser, strip_meta

    d = tempfile.mkdtemp(prefix="c01d_")
    try:
        f1 = os.path.join(d, "d1.yaml")
        with open(f1, "w") as fh:
            fh.write(f"a: {old}\n")
        parser = ArgumentParser(exit_on_error=False, default_config_files=[f1])
        parser.add_argument("--a", type=int, default=0)
        parser.add_argument("--b", type=str, default="x")
        if dump_before:
            parser.dump(parser.parse_args([]), skip_default=True, skip_none=skip_none)
        if mech == "rewrite-file":
            with open(f1, "w") as fh:
                fh.write(f"a: {new}\n")
        elif mech == "assign-default_config_files":
            f2 = os.path.join(d, "d2.yaml")
            with open(f2, "w") as fh:
                fh.write(f"a: {new}\n")
            parser.default_config_files = [f2]
        elif mech == "remove-file":
            os.unlink(f1)
        elif mech == "set_defaults":
            parser.set_defaults(b="y")
        cfg = parser.parse_args([f"--a={val}"])
        bad = []
        for fmt in ("yaml", "json"):
            text = parser.dump(cfg, format=fmt, skip_default=True, skip_none=skip_none)
            r = same(strip_meta(cfg), strip_meta(parser.parse_string(text)))
            if r:
                bad.append((fmt, r, text))
        if bad:
            return Fail("defaults-change:skip_default-dump-not-lossless", routes=bad)
        return True
    finally:
        shutil.rmtree(d, ignore_errors=True)


def defaults_change():
    _defaults_change_once("none", False, 1, 2, 3)

    def harness():
        mech = S.pick("mechanism", ["none", "rewrite-file", "assign-default_config_files", "remove-file", "set_defaults"])
        dump_before = S.flag("dump_before_change")
        old = S.pick("old_default", [0, 1, 2])
        new = S.pick("new_default", [0, 1, 3])
        val = S.pick("value", [0, 1, 2, 3])
        skip_none = S.flag("skip_none")
        S.note("accepted")
        if S.replaying is not None:
            return _defaults_change_once(mech, dump_before, old, new, val, skip_none)
        from crosshair.tracers import NoTracing

        with NoTracing():
            return _defaults_change_once(mech, dump_before, old, new, val, skip_none)

    return harness


def main(rep, tier):
    rep.functions = FUNCTIONS
    rep.stubs = [FORMAT_STUBS_NOTE, TEXT_STUB_NOTE]
    rep.rule = ("E-SMT: one evaluation per solver query (non-trivial = unsat inclusion or a required witness); E-CH: one path per branch the "
                "real parse/dump/re-parse code takes on the shape's symbolic leaves, kinds and lengths; non-trivial = configuration accepted and round trip compared")
    shapes = shapes_for(tier)
    rep.bounds = dict(string_length=MAXLEN, shapes=[s.name for s in shapes], list_lengths="<=2", restricted_windows="1..4",
                      e2e_window=[-1, 0, 1, 2] if tier == "thorough" else "registered shape only")
    rep.assumptions = [
        "strings quoted by the dumper (yaml quoted styles, every JSON string) load as str: PyYAML/json scanner behaviour, trusted",
        "dict/list structure survives the yaml/json text round trip (PyYAML and json on block/flow structure), trusted",
        "plain-style conditions of the yaml emitter are over-approximated; spurious models are removed by replay through the public API",
        "output languages of int/float/bool/null representers and of json.dumps are regular models validated on sample values every run",
        "outside: yaml_comments, toml, jsonnet formats; multi-line strings; header comments; the yaml_load heuristics for '{a, b}' / 'a:' texts",
        "adapter layer: str leaves come from a fixed menu of look-alike texts; Set, Enum, Literal, registered-type leaves from small menus; "
        "restricted ints from a window; floats are modelled as reals (no rounding); everything else symbolic",
        "e2e runs (thorough; quick only for the registered-types shape): leaves are concrete members of a window chosen by the solver, "
        "the real emitter/parser/print_config/save run outside the tracer",
    ]
    text_layer(rep, tier)
    jobs = []
    for sh in shapes:
        for sd in (False, True):
            if sh.note == "native":
                jobs.append(dict(module="c01", func="e2e_factory", kwargs=dict(shape=sh.name, skip_default=sd), timeout=200, max_fail_samples=40))
            else:
                from ..shapes import shard_jobs

                for sj in shard_jobs(sh.name):
                    jobs.append(dict(module="c01", func="adapter_factory", kwargs=dict(shape=sh.name, skip_default=sd, **sj), timeout=200 if tier == "quick" else 900))
    jobs.append(dict(module="c01", func="defaults_change", kwargs={}, timeout=300))
    e2e_jobs = []
    if tier == "thorough":
        for sh in shapes:
            if sh.note != "native":
                for sd in (False, True):
                    e2e_jobs.append(dict(module="c01", func="e2e_factory", kwargs=dict(shape=sh.name, skip_default=sd), timeout=600))
    results = run_jobs(jobs + e2e_jobs)
    fails = absorb(rep, results[: len(jobs)], require_tags=("accepted",))
    fails2 = absorb(rep, results[len(jobs):], require_exhausted=False) if e2e_jobs else {}
    rep.extra["e2e_not_exhausted"] = [r["kwargs"] for r in results[len(jobs):] if not r.get("exhausted")]
    groups = {}
    for src in (fails, fails2):
        for cls, samples in src.items():
            for smp in samples:
                groups.setdefault((cls, smp["kwargs"].get("shape", smp["harness"]), smp["kwargs"].get("skip_default", True)), []).append(smp)
    for (cls, shape, sd), samples in groups.items():
        reported = False
        for smp in samples:
            nk = dict(real_text=True) if smp["harness"] == "adapter_factory" else {}
            payload = dict(module="c01", func=smp["harness"], kwargs=smp["kwargs"], native_kwargs=nk, ordered=smp["values"].get("__order__", []))
            r = run_native("ch", "replay_path", payload)
            vals = dict(shape=shape, skip_default=sd, info=json.dumps(smp["info"], default=repr), replay=r.get("detail", ""))
            if shape == "strings":
                from ..shapes import _TEXT_MENU

                vals["input"] = ascii(_TEXT_MENU[smp["values"].get("text", 0)]) + " at position %s" % smp["values"].get("where")
            if isinstance(smp["info"], dict) and "routes" in smp["info"]:
                # the distinct differences over all routes: a finding pinned on `details` covers a sample only if it shows nothing else
                vals["details"] = " | ".join(sorted({str(r_[1]) for r_ in smp["info"]["routes"]}))
            if not r.get("reproduced"):
                rep.inconc(f"counterexample of class {cls} on {shape}/skip_default={sd} did not reproduce through the real text: {smp['info']} -> {r}")
                continue
            known = rep.match_finding(cls, vals)
            if known:
                rep.known_finding(known, f"{cls} {shape} skip_default={sd}")
            elif not reported:
                rep.violation(f"{cls} on shape {shape}, skip_default={sd}: {smp['info']} :: {r.get('detail')}", dict(module="ch", func="replay_path", payload=payload, cls=cls))
                reported = True
