"""C07 — equivalent ways of declaring a nested group behave identically.

E-CH/api, relational. For each field list four parsers are built: individual dotted arguments,
a dataclass-typed argument, add_class_arguments under the key, an inner parser attached with
ActionParser. Symbolic: the kind and number of the value at each field (valid, bool-for-int, None,
list of 0-2 ints, str, absent) with symbolic ints; the four outcomes must agree (all reject, or
equal nested values) and so must the dicts that dump serialises; text channels on concrete values.
"""
import json

from ..ch import S, Fail, absorb, run_jobs
from ..common import run_native
from ..shapes import same
from ..stubs import FORMAT_STUBS_NOTE, TEXT_STUB_NOTE, capture_dump, install_format_stubs

FUNCTIONS = [
    "jsonargparse._core.ActionsContainer.add_argument (dispatch), ArgumentParser.parse_object/parse_args/parse_env/parse_string/dump",
    "jsonargparse._signatures.SignatureArguments.add_class_arguments/_add_signature_arguments/_add_signature_parameter/_create_group_if_requested",
    "jsonargparse._actions.ActionParser._move_parser_actions, _ActionConfigLoad; jsonargparse._common.is_dataclass_like",
]

STYLES = ["dotted", "dataclass", "class_arguments", "action_parser"]
FIELDS = {
    "G1": [("c", "list", None), ("a", "int", 1), ("b", "optfloat", None)],
    "G3": [("tags", "optlist", "NODEFAULT"), ("n", "int", 1), ("lit", "optdict", None)],  # Optional of a non-class hint, without default
    # defaults that differ from the class's own; the dataclass style gets them as a default *instance* whose dict member holds dataclass instances
    "G4": [("a", "int", 2), ("m", "dictitem", {"k": {"x": 6, "tag": "t"}})],
    "G2": [("flag", "bool", False), ("name", "str", "n"), ("inner.k", "int", 3), ("inner.r", "optfloat", None)],
}


def _hint(kind):
    from typing import List, Optional

    from typing import Dict

    from ..fixtures import Item

    return {"dictitem": Dict[str, Item], "list": List[int], "int": int, "optfloat": Optional[float], "bool": bool, "str": str, "optlist": Optional[List[int]], "optdict": Optional[Dict[str, int]]}[kind]


def _build(fl, style):
    from jsonargparse import ActionParser, ArgumentParser

    from .. import fixtures

    p = ArgumentParser(exit_on_error=False, prog="app")
    p.add_argument("--top", type=int, default=0)
    if style == "dotted":
        for name, kind, default in FIELDS[fl]:
            kw = dict(type=_hint(kind))
            if default is None and kind == "list":
                kw["required"] = True
            elif default != "NODEFAULT":
                kw["default"] = default
            p.add_argument(f"--g.{name}", **kw)
    elif style == "dataclass":
        if fl == "G4":
            p.add_argument("--g", type=fixtures.G4, default=fixtures.g4_default_instance())
        else:
            p.add_argument("--g", type=getattr(fixtures, fl))
    elif style == "class_arguments":
        if fl == "G4":
            p.add_class_arguments(fixtures.G4Class, "g", default={n: d for n, _, d in FIELDS[fl]})
        else:
            p.add_class_arguments(getattr(fixtures, fl + "Class"), "g")
    else:
        inner = ArgumentParser(exit_on_error=False)
        for name, kind, default in FIELDS[fl]:
            kw = dict(type=_hint(kind))
            if default is None and kind == "list":
                kw["required"] = True
            elif default != "NODEFAULT":
                kw["default"] = default
            inner.add_argument(f"--{name}", **kw)
        p.add_argument("--g", action=ActionParser(parser=inner))
    return p


VALUE_KINDS = ["absent", "int", "bool", "none", "list0", "list1", "list2", "str", "float"]
TEXT_KINDS = ["absent", "int", "bool", "none", "list1", "list2", "str", "float"]
TEXT_CHANNELS = ["argv-dotted", "argv-append", "argv-group-json", "cfg-string", "env", "env-group-and-member", "argv-group-then-member", "argv-member-then-group"]


def _value(name, vk, concrete=False):
    i = (lambda n: 5) if concrete else S.int
    if vk == "int":
        return i(name)
    if vk == "bool":
        return True if concrete else S.bool(name)
    if vk == "none":
        return None
    if vk == "list0":
        return []
    if vk == "list1":
        return [i(name + "[0]")]
    if vk == "list2":
        return [i(name + "[0]"), i(name + "[1]")]
    if vk == "str":
        return "txt"
    if vk == "float":
        return 2.5
    raise ValueError(vk)


def _set(obj, dotted, v):
    node = obj
    parts = dotted.split(".")
    for p in parts[:-1]:
        node = node.setdefault(p, {})
    node[parts[-1]] = v


def _plain(ns):
    from jsonargparse import Namespace

    if isinstance(ns, Namespace):
        return {k: _plain(v) for k, v in vars(ns).items() if not k.startswith("__")}
    if hasattr(ns, "__dataclass_fields__"):
        return {k: _plain(getattr(ns, k)) for k in ns.__dataclass_fields__}
    return ns


def _outcome(fn):
    from jsonargparse import ArgumentError

    try:
        return ("ok", _plain(fn()))
    except ArgumentError as ex:
        return ("rejected", str(ex)[:120])


def _agree(outs, what, **info):
    base_style, base = outs[0]
    for style, o in outs[1:]:
        if o[0] != base[0]:
            return Fail(f"styles:{what}-accept-reject-differs", a=base_style, a_status=base[0], b=style, b_status=o[0], detail=(o[1] if o[0] == "rejected" else base[1]) if isinstance(o[1], str) or isinstance(base[1], str) else "", **info)
        if o[0] == "ok":
            r = same(base[1], o[1])
            if r:
                return Fail(f"styles:{what}-results-differ", a=base_style, b=style, where=r, **info)
    return None


def objects(fl, first_kind=None):
    install_format_stubs()
    parsers = {st: _build(fl, st) for st in STYLES}

    def harness():
        g = {}
        kinds = {}
        for n_, (name, kind, default) in enumerate(FIELDS[fl]):
            vk = first_kind if (n_ == 0 and first_kind) else S.pick(name + ".kind", VALUE_KINDS)
            kinds[name] = vk
            if vk != "absent":
                _set(g, name, _value(name, vk))
        obj = {"top": S.int("top")}
        if g or S.flag("empty_group_given"):
            obj["g"] = g
        import copy

        outs = [(st, _outcome(lambda st=st: parsers[st].parse_object(copy.deepcopy(obj)))) for st in STYLES]
        S.note(outs[0][1][0])
        f = _agree(outs, "object", kinds=kinds)
        if f:
            return f
        if outs[0][1][0] == "ok":
            dumps = []
            for st in STYLES:
                cfg = parsers[st].parse_object(copy.deepcopy(obj))
                try:
                    dumps.append((st, ("ok", capture_dump(parsers[st], cfg, skip_none=False))))
                except Exception as ex:
                    dumps.append((st, ("rejected", type(ex).__name__ + str(ex)[:80])))
            f = _agree(dumps, "dump", kinds=kinds)
            if f:
                return f
        return True

    return harness


def text(fl, channel, first_kind):
    """argv (dotted keys, '+' append, whole-group JSON), config string, environment: concrete values chosen by the solver."""
    parsers = lambda: {st: _build(fl, st) for st in STYLES}

    def run(kinds, vals, channel):
        flat = {n: v for n, v in vals.items()}
        nested = {}
        for n, v in flat.items():
            _set(nested, n, v)
        ps = parsers()
        styles = STYLES
        if channel == "argv-dotted":
            argv = [f"--g.{n}={json.dumps(v) if not isinstance(v, str) else v}" for n, v in flat.items()]
            call = lambda p: p.parse_args(argv)
        elif channel == "argv-append":
            if "c" not in flat or not isinstance(flat["c"], list):
                return None
            argv = [f"--g.{n}={json.dumps(v) if not isinstance(v, str) else v}" for n, v in flat.items()] + ["--g.c+=7"]
            call = lambda p: p.parse_args(argv)
        elif channel == "argv-group-json":
            styles = [s for s in STYLES if s != "dotted"]  # plain dotted arguments declare no --g option, by design
            argv = ["--g=" + json.dumps(nested)]
            call = lambda p: p.parse_args(argv)
        elif channel == "cfg-string":
            text_ = json.dumps({"g": nested, "top": 3})
            call = lambda p: p.parse_string(text_)
        elif channel == "env":
            env = {"APP_G__" + n.replace(".", "__").upper(): (json.dumps(v) if not isinstance(v, str) else v) for n, v in flat.items()}
            call = lambda p: p.parse_env(env)
        elif channel in ("env-group-and-member", "argv-group-then-member", "argv-member-then-group"):
            # the whole-group value together with one member value (three styles declare the group option)
            styles = [s for s in STYLES if s != "dotted"]
            if len(flat) < 2:
                return None
            member = sorted(flat)[-1]
            group_part = {}
            for n, v in flat.items():
                if n != member:
                    _set(group_part, n, v)
            mtext = json.dumps(flat[member]) if not isinstance(flat[member], str) else flat[member]
            if channel == "env-group-and-member":
                env = {"APP_G": json.dumps(group_part), "APP_G__" + member.replace(".", "__").upper(): mtext}
                call = lambda p: p.parse_env(env)
            elif channel == "argv-group-then-member":
                argv = ["--g=" + json.dumps(group_part), f"--g.{member}={mtext}"]
                call = lambda p: p.parse_args(argv)
            else:
                argv = [f"--g.{member}={mtext}", "--g=" + json.dumps(group_part)]
                call = lambda p: p.parse_args(argv)
        else:
            raise RuntimeError(channel)
        outs = [(st, _outcome(lambda st=st: call(ps[st]))) for st in styles]
        S.note(outs[0][1][0])
        f = _agree(outs, channel, kinds=kinds)
        if f:
            return f
        if outs[0][1][0] == "ok":
            texts = []
            for st in styles:
                try:
                    texts.append((st, ("ok", ps[st].dump(call(_build(fl, st)), skip_none=False))))
                except Exception as ex:
                    texts.append((st, ("rejected", type(ex).__name__)))
            f = _agree(texts, channel + "-dump-text", kinds=kinds)
            if f:
                return f
        return True

    def harness():
        kinds, vals = {}, {}
        for n_, (name, kind, default) in enumerate(FIELDS[fl]):
            vk = first_kind if n_ == 0 else S.pick(name + ".kind", TEXT_KINDS)
            kinds[name] = vk
            if vk != "absent":
                vals[name] = _value(name, vk, concrete=True)
        if S.replaying is not None:
            return run(kinds, vals, channel)
        from crosshair.tracers import NoTracing

        with NoTracing():
            return run(kinds, vals, channel)

    return harness


def main(rep, tier):
    rep.functions = FUNCTIONS
    rep.stubs = [FORMAT_STUBS_NOTE, TEXT_STUB_NOTE + " (object harness only)"]
    rep.rule = ("one path per (value kind at each field, group given or not) x branch of the real code on the symbolic ints, the same input fed to four parsers; "
                "non-trivial = the four outcomes (and dumps) were compared")
    fls = ["G1", "G3", "G4"] if tier == "quick" else ["G1", "G3", "G4", "G2"]
    rep.bounds = dict(field_lists={k: FIELDS[k] for k in fls}, styles=STYLES, value_kinds=VALUE_KINDS, text_channels=["argv-dotted", "argv-append", "argv-group-json", "cfg-string", "env"])
    rep.assumptions = [
        "the whole-group argv option (--g '{...}') is compared across the three styles that declare it (plain dotted arguments define no --g option, by design)",
        "results are compared as nested plain values (a dataclass instance and a namespace with equal fields are equal); dump dicts likewise",
        "text channels run on concrete values outside the tracer; object channel with symbolic ints",
    ]
    jobs = []
    for fl in fls:
        for fk in VALUE_KINDS:
            jobs.append(dict(module="c07", func="objects", kwargs=dict(fl=fl, first_kind=fk), timeout=600))
        for ch_ in TEXT_CHANNELS:
            for fk in TEXT_KINDS:
                if ch_ == "argv-append" and fl == "G1" and not fk.startswith("list"):
                    continue
                if ch_ == "argv-append" and fl != "G1":
                    continue
                if fl == "G4" and fk == "absent" and ch_ in ("env-group-and-member", "argv-group-then-member", "argv-member-then-group"):
                    continue  # these channels give the first member a value: nothing to run when it is absent (the second member is not a scalar)
                jobs.append(dict(module="c07", func="text", kwargs=dict(fl=fl, channel=ch_, first_kind=fk), timeout=600))
    results = run_jobs(jobs)
    fails = absorb(rep, [r for r in results], require_tags=("ok", "rejected"))
    groups = {}
    for cls, samples in fails.items():
        for smp in samples:
            groups.setdefault((cls, smp["harness"], smp["kwargs"]["fl"], smp["info"].get("a", ""), smp["info"].get("b", "")), []).append(smp)
    for (cls, hname, fl, a, b), samples in groups.items():
        smp = samples[0]
        payload = dict(module="c07", func=hname, kwargs=smp["kwargs"], ordered=smp["values"].get("__order__", []))
        r = run_native("ch", "replay_path", payload)
        vals = dict(harness=hname, fl=fl, a=a, b=b, info=json.dumps(smp["info"], default=repr))
        if not r.get("reproduced"):
            rep.inconc(f"counterexample {cls} ({hname} {fl}) did not reproduce natively: {smp['info']} -> {r}")
            continue
        known = rep.match_finding(cls, vals)
        if known:
            rep.known_finding(known, f"{cls} {fl} {a} vs {b}")
        else:
            rep.violation(f"{cls} ({hname} {fl}): {smp['info']} :: {r.get('detail')}", dict(module="ch", func="replay_path", payload=payload, cls=cls))
