"""C18 — save never destroys data: all-or-nothing on failure, no silent overwrite.

E-CH/api with a solver-chosen fault schedule on real files in a per-path temp directory:
overwrite, multifile, target exists, sub-file exists, configuration loaded from sub-files or not,
which fault (none | invalid value | unserialisable value), the invalid value itself (window).
Directory snapshot (names, sizes, SHA-256) before and after save().
"""
import hashlib
import json
import os
import shutil
import tempfile

from ..ch import S, Fail, absorb, run_jobs
from ..common import run_native

FUNCTIONS = [
    "jsonargparse._core.ArgumentParser.save (check_overwrite, single-file branch, multi-file branch with save_paths), dump, validate, parse_path",
    "jsonargparse._util.Path(mode='fc'), change_to_path_dir",
]

FAULTS = ["none", "invalid", "unserialisable", "invalid-in-subfile-section", "json-unserialisable", "inf-in-json-subfile"]


def a_function(x: int = 0) -> int:
    return x


def _parser():
    from typing import Any, Callable

    from jsonargparse import ActionConfigFile, ArgumentParser
    from jsonargparse.typing import PositiveInt

    from ..fixtures import Base, Inner

    p = ArgumentParser(exit_on_error=False)
    p.add_argument("--cfg", action=ActionConfigFile)
    p.add_argument("--a", type=PositiveInt, default=1)
    p.add_argument("--f", type=Callable, default=a_function)
    p.add_argument("--g", type=Inner, default=Inner())
    p.add_argument("--x", type=Base, default=None, enable_path=True)
    p.add_argument("--any", type=Any, default=None)
    from ..fixtures import Limits

    p.add_argument("--h", type=Limits, default=Limits())  # loaded from a *.json sub-file (written back as json whatever the main format)
    return p


def _snapshot(d):
    out = {}
    for root, _, files in os.walk(d):
        for f in files:
            p = os.path.join(root, f)
            with open(p, "rb") as fh:
                data = fh.read()
            out[os.path.relpath(p, d)] = (len(data), hashlib.sha256(data).hexdigest())
    return out


def _once(overwrite, multifile, target_exists, sub_exists, from_subfiles, fault, bad_value, fmt):
    from jsonargparse import ArgumentError, strip_meta

    from ..shapes import same

    root = tempfile.mkdtemp(prefix="c18_")
    cwd = os.getcwd()
    try:
        src, out = os.path.join(root, "src"), os.path.join(root, "out")
        os.makedirs(src)
        os.makedirs(out)
        with open(os.path.join(src, "g.yaml"), "w") as f:
            f.write("k: 11\nr: 2.5\n")
        with open(os.path.join(src, "x.yaml"), "w") as f:
            f.write("class_path: vf.fixtures.Sub1\ninit_args:\n  w: 4\n")
        with open(os.path.join(src, "h.json"), "w") as f:
            f.write('{"lim": 2.5, "n": 1}')
        with open(os.path.join(src, "main.yaml"), "w") as f:
            f.write("a: 3\ng: g.yaml\nx: x.yaml\nh: h.json\n")
        p = _parser()
        if from_subfiles:
            cfg = p.parse_path(os.path.join(src, "main.yaml"))
        else:
            cfg = p.parse_object({"a": 3, "g": {"k": 11, "r": 2.5}, "x": {"class_path": "vf.fixtures.Sub1", "init_args": {"w": 4}}, "h": {"lim": 2.5, "n": 1}})
        expected = strip_meta(cfg).clone()
        if fault == "invalid":
            cfg["a"] = bad_value
        elif fault == "unserialisable":
            cfg["f"] = lambda z: z
        elif fault == "invalid-in-subfile-section":
            cfg["g.k"] = "not-an-int"
        elif fault == "inf-in-json-subfile":
            inf = type(cfg["h.lim"])(float("inf"))  # a valid value (PositiveFloat) that yaml and json both write; the json sub-file holds it
            cfg["h.lim"] = inf
            expected["h.lim"] = inf
        elif fault == "json-unserialisable":
            cfg["any"] = {1, 2}  # a set is written by the yaml dumper but not by json
        target = os.path.join(out, "main." + ("json" if fmt == "json" else "yaml"))
        if target_exists:
            with open(target, "w") as f:
                f.write("OLD MAIN CONTENT\n")
        if sub_exists:
            with open(os.path.join(out, "g.yaml"), "w") as f:
                f.write("OLD SUB CONTENT\n")
        before = _snapshot(out)
        raised = None
        try:
            p.save(cfg, target, format=fmt, overwrite=overwrite, multifile=multifile)
        except Exception as ex:  # any exception type counts as "save failed"
            raised = ex
        after = _snapshot(out)
        has_metas = from_subfiles and multifile
        must_refuse = (not overwrite) and (target_exists or (has_metas and sub_exists))
        must_fail = fault not in ("none", "inf-in-json-subfile") and not (fault == "json-unserialisable" and fmt == "yaml")
        if fault == "json-unserialisable" and fmt == "yaml":
            expected = None  # a yaml !!set tag is not read back by the safe loader: only 'no failure, nothing destroyed' is demanded
        if (must_refuse or must_fail) and raised is None:
            return Fail("save:succeeded-although-it-must-fail", refuse=must_refuse, fault=fault)
        if raised is not None and not (must_refuse or must_fail):
            return Fail("save:failed-on-a-valid-configuration", exc=type(raised).__name__, msg=str(raised)[:200])
        if must_fail:
            if after != before:
                return Fail("save:failed-but-files-changed", fault=fault, multifile=multifile, before=sorted(before), after={k: v[0] for k, v in after.items()},
                            changed=[k for k in set(before) | set(after) if before.get(k) != after.get(k)])
            return True
        if must_refuse:
            for k, v in before.items():
                if after.get(k) != v:
                    return Fail("save:refused-overwrite-but-existing-file-changed", file=k)
            return True
        # success: parsing the saved path reproduces the configuration
        if expected is None:
            return True
        try:
            back = strip_meta(_parser().parse_path(target))
        except ArgumentError as ex:
            return Fail("save:saved-path-does-not-parse", msg=str(ex)[:200])
        back = back.clone()
        for ns in (back, expected):
            ns.pop("cfg", None)
        r = same(expected, back)
        if r:
            return Fail("save:saved-path-parses-to-different-configuration", where=r)
        return True
    finally:
        os.chdir(cwd)
        shutil.rmtree(root, ignore_errors=True)


def schedule(fmt="yaml"):
    _once(True, True, False, False, True, "none", 0, fmt)  # warm-up

    def harness():
        overwrite = S.flag("overwrite")
        multifile = S.flag("multifile")
        target_exists = S.flag("target_exists")
        sub_exists = S.flag("sub_exists")
        from_subfiles = S.flag("from_subfiles")
        fault = S.pick("fault", FAULTS)
        bad = S.int("bad_value", -2, 0) if fault == "invalid" else 0
        if fault == "invalid":
            # concretise the solver's choice inside the window (files need concrete text)
            for cand in (-2, -1):
                if bad == cand:
                    bad = cand
                    break
            else:
                bad = 0
        S.note("fault:" + fault)
        if S.replaying is not None:
            return _once(overwrite, multifile, target_exists, sub_exists, from_subfiles, fault, bad, fmt)
        from crosshair.tracers import NoTracing

        with NoTracing():
            return _once(overwrite, multifile, target_exists, sub_exists, from_subfiles, fault, bad, fmt)

    return harness


def main(rep, tier):
    rep.functions = FUNCTIONS
    rep.rule = ("one path per fault schedule (overwrite, multifile, target exists, sub-file exists, loaded from sub-files, fault kind, invalid value); "
                "non-trivial = save ran and the directory snapshots were compared")
    rep.bounds = dict(schedule_bits=5, faults=FAULTS, invalid_window=[-2, 0], formats=["yaml", "json"] if tier == "quick" else ["yaml", "json", "json_indented"])
    rep.assumptions = [
        "faults: a value that fails validation (PositiveInt <= 0), a value that validates but cannot be serialised (a lambda for a Callable argument), "
        "an invalid value inside a section that is written to a sub-file; I/O errors in the middle of a write are outside the statement",
        "a refusal to overwrite must leave every pre-existing file byte-identical (a sub-file refusal may leave an earlier, newly created sub-file behind)",
        "real files in a per-path temp directory; the schedule is solver-chosen, the body runs outside the tracer",
    ]
    fmts = ["yaml", "json"] if tier == "quick" else ["yaml", "json", "json_indented"]
    results = run_jobs([dict(module="c18", func="schedule", kwargs=dict(fmt=f), timeout=600) for f in fmts])
    fails = absorb(rep, results, require_tags=tuple("fault:" + f for f in FAULTS))
    groups = {}
    for cls, samples in fails.items():
        for smp in samples:
            v = smp["values"]
            groups.setdefault((cls, bool(v.get("multifile")), smp["info"].get("fault", "")), []).append(smp)
    for (cls, multifile, fault), samples in groups.items():
        reported = False
        for smp in samples:
            payload = dict(module="c18", func="schedule", kwargs=smp["kwargs"], ordered=smp["values"].get("__order__", []))
            r = run_native("ch", "replay_path", payload)
            vals = dict(multifile=multifile, fault=fault, info=json.dumps(smp["info"], default=repr))
            if not r.get("reproduced"):
                rep.inconc(f"counterexample {cls} did not reproduce natively: {smp['info']} -> {r}")
                continue
            known = rep.match_finding(cls, vals)
            if known:
                rep.known_finding(known, f"{cls} multifile={multifile} fault={fault}")
            elif not reported:
                rep.violation(f"{cls} (multifile={multifile}, fault={fault}): {smp['info']} :: {r.get('detail')}", dict(module="ch", func="replay_path", payload=payload, cls=cls))
                reported = True
