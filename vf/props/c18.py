"""C18 — save never destroys data: all-or-nothing on failure, no silent overwrite.

E-CH/api with a solver-chosen fault schedule on real files in a per-path temp directory:
overwrite, multifile, target exists, sub-file exists, configuration loaded from sub-files or not,
which fault (none | invalid value | unserialisable value), the invalid value itself (window).
Directory snapshot (names, sizes, SHA-256) before and after save().
"""
import hashlib
import json
import os
import shutil
import tempfile

from ..ch import S, Fail, absorb, run_jobs, untraced
from ..common import run_native

FUNCTIONS = [
    "jsonargparse._core.ArgumentParser.save (check_overwrite, single-file branch, multi-file branch with save_paths), dump, validate, parse_path",
    "jsonargparse._util.Path(mode='fc'), change_to_path_dir",
]

FAULTS = ["none", "invalid", "unserialisable", "invalid-in-subfile-section", "json-unserialisable", "inf-in-json-subfile"]


def a_function(x: int = 0) -> int:
    return x


def _parser():
    from typing import Any, Callable

    from jsonargparse import ActionConfigFile, ArgumentParser
    from jsonargparse.typing import PositiveInt

    from ..fixtures import Base, Inner

    p = ArgumentParser(exit_on_error=False)
    p.add_argument("--cfg", action=ActionConfigFile)
    p.add_argument("--a", type=PositiveInt, default=1)
    p.add_argument("--f", type=Callable, default=a_function)
    p.add_argument("--g", type=Inner, default=Inner())
    p.add_argument("--x", type=Base, default=None, enable_path=True)
    p.add_argument("--any", type=Any, default=None)
    from ..fixtures import Limits

    p.add_argument("--h", type=Limits, default=Limits())  # loaded from a *.json sub-file (written back as json whatever the main format)
    return p


def _snapshot(d):
    out = {}
    for root, _, files in os.walk(d):
        for f in files:
            p = os.path.join(root, f)
            with open(p, "rb") as fh:
                data = fh.read()
            out[os.path.relpath(p, d)] = (len(data), hashlib.sha256(data).hexdigest())
    return out


SUB_REFS = {"sibling": "g.yaml", "subdir": "parts/g.yaml", "parent-dir": "../shared/g.yaml"}


def _once(overwrite, multifile, target_exists, sub_exists, from_subfiles, fault, bad_value, fmt, sub_ref="sibling"):
    from jsonargparse import ArgumentError, strip_meta

    from ..shapes import same

    root = tempfile.mkdtemp(prefix="c18_")
    cwd = os.getcwd()
    try:
        src, out = os.path.join(root, "src"), os.path.join(root, "out")
        os.makedirs(src)
        os.makedirs(out)
        gref = SUB_REFS[sub_ref]
        os.makedirs(os.path.dirname(os.path.join(src, gref)), exist_ok=True)
        with open(os.path.join(src, gref), "w") as f:
            f.write("k: 10\nr: 2.5\n")
        with open(os.path.join(src, "x.yaml"), "w") as f:
            f.write("class_path: vf.fixtures.Sub1\ninit_args:\n  w: 4\n")
        with open(os.path.join(src, "h.json"), "w") as f:
            f.write('{"lim": 2.5, "n": 1}')
        with open(os.path.join(src, "main.yaml"), "w") as f:
            f.write(f"a: 3\ng: {gref}\nx: x.yaml\nh: h.json\n")
        p = _parser()
        if from_subfiles:
            cfg = p.parse_path(os.path.join(src, "main.yaml"))
        else:
            cfg = p.parse_object({"a": 3, "g": {"k": 10, "r": 2.5}, "x": {"class_path": "vf.fixtures.Sub1", "init_args": {"w": 4}}, "h": {"lim": 2.5, "n": 1}})
        cfg["g.k"] = 11  # an edit made after loading: the saved files must hold it, wherever the section was loaded from
        expected = strip_meta(cfg).clone()
        if fault == "invalid":
            cfg["a"] = bad_value
        elif fault == "unserialisable":
            cfg["f"] = lambda z: z
        elif fault == "invalid-in-subfile-section":
            cfg["g.k"] = "not-an-int"
        elif fault == "inf-in-json-subfile":
            inf = type(cfg["h.lim"])(float("inf"))  # a valid value (PositiveFloat) that yaml and json both write; the json sub-file holds it
            cfg["h.lim"] = inf
            expected["h.lim"] = inf
        elif fault == "json-unserialisable":
            cfg["any"] = {1, 2}  # a set is written by the yaml dumper but not by json
        target = os.path.join(out, "main." + ("json" if fmt == "json" else "yaml"))
        if target_exists:
            with open(target, "w") as f:
                f.write("OLD MAIN CONTENT\n")
        if sub_exists:
            with open(os.path.join(out, "g.yaml"), "w") as f:
                f.write("OLD SUB CONTENT\n")
        before = _snapshot(out)
        raised = None
        try:
            p.save(cfg, target, format=fmt, overwrite=overwrite, multifile=multifile)
        except Exception as ex:  # any exception type counts as "save failed"
            raised = ex
        after = _snapshot(out)
        has_metas = from_subfiles and multifile
        must_refuse = (not overwrite) and (target_exists or (has_metas and sub_exists))
        must_fail = fault not in ("none", "inf-in-json-subfile") and not (fault == "json-unserialisable" and fmt == "yaml")
        if fault == "json-unserialisable" and fmt == "yaml":
            expected = None  # a yaml !!set tag is not read back by the safe loader: only 'no failure, nothing destroyed' is demanded
        if (must_refuse or must_fail) and raised is None:
            return Fail("save:succeeded-although-it-must-fail", refuse=must_refuse, fault=fault)
        if raised is not None and not (must_refuse or must_fail):
            return Fail("save:failed-on-a-valid-configuration", exc=type(raised).__name__, msg=str(raised)[:200])
        if must_fail:
            if after != before:
                return Fail("save:failed-but-files-changed", fault=fault, multifile=multifile, before=sorted(before), after={k: v[0] for k, v in after.items()},
                            changed=[k for k in set(before) | set(after) if before.get(k) != after.get(k)])
            return True
        if must_refuse:
            for k, v in before.items():
                if after.get(k) != v:
                    return Fail("save:refused-overwrite-but-existing-file-changed", file=k)
            return True
        # success: parsing the saved path reproduces the configuration
        if expected is None:
            return True
        try:
            back = strip_meta(_parser().parse_path(target))
        except ArgumentError as ex:
            return Fail("save:saved-path-does-not-parse", msg=str(ex)[:200])
        back = back.clone()
        for ns in (back, expected):
            ns.pop("cfg", None)
        r = same(expected, back)
        if r:
            return Fail("save:saved-path-parses-to-different-configuration", where=r)
        return True
    finally:
        os.chdir(cwd)
        shutil.rmtree(root, ignore_errors=True)


def schedule(fmt="yaml"):
    _once(True, True, False, False, True, "none", 0, fmt)  # warm-up

    def harness():
        overwrite = S.flag("overwrite")
        multifile = S.flag("multifile")
        target_exists = S.flag("target_exists")
        sub_exists = S.flag("sub_exists")
        from_subfiles = S.flag("from_subfiles")
        fault = S.pick("fault", FAULTS)
        sub_ref = S.pick("sub_ref", sorted(SUB_REFS)) if (from_subfiles and fault == "none") else "sibling"
        bad = S.int("bad_value", -2, 0) if fault == "invalid" else 0
        if fault == "invalid":
            # concretise the solver's choice inside the window (files need concrete text)
            for cand in (-2, -1):
                if bad == cand:
                    bad = cand
                    break
            else:
                bad = 0
        S.note("fault:" + fault)
        if S.replaying is not None:
            return _once(overwrite, multifile, target_exists, sub_exists, from_subfiles, fault, bad, fmt, sub_ref)
        from crosshair.tracers import NoTracing

        with NoTracing():
            return _once(overwrite, multifile, target_exists, sub_exists, from_subfiles, fault, bad, fmt, sub_ref)

    return harness


def _dict_only_once(overwrite, target_exists, sub_exists, fault, fmt):
    """A configuration whose only sub-file belongs to a dict-valued argument (no Namespace-valued sub-file anywhere)."""
    from typing import Any, Dict

    from jsonargparse import ActionConfigFile, ArgumentParser, strip_meta

    from ..shapes import same

    def parser():
        p = ArgumentParser(exit_on_error=False)
        p.add_argument("--cfg", action=ActionConfigFile)
        p.add_argument("--table", type=Dict[str, int], enable_path=True)
        p.add_argument("--extra", type=Any, default=None)
        p.add_argument("--n", type=int, default=0)
        return p

    root = tempfile.mkdtemp(prefix="c18d_")
    cwd = os.getcwd()
    try:
        src, out = os.path.join(root, "src"), os.path.join(root, "out")
        os.makedirs(src)
        os.makedirs(out)
        with open(os.path.join(src, "table.yaml"), "w") as f:
            f.write("a: 1\nb: 2\n")
        with open(os.path.join(src, "main.yaml"), "w") as f:
            f.write("table: table.yaml\nn: 2\n")
        p = parser()
        cfg = p.parse_path(os.path.join(src, "main.yaml"))
        cfg.table["a"] = 100
        expected = strip_meta(cfg).clone()
        if fault == "unserialisable":
            cfg.extra = object()
        elif fault == "invalid":
            cfg.n = "not-an-int"
        target = os.path.join(out, "main.yaml" if fmt == "yaml" else "main.json")
        if target_exists:
            with open(target, "w") as f:
                f.write("OLD MAIN CONTENT\n")
        if sub_exists:
            with open(os.path.join(out, "table.yaml"), "w") as f:
                f.write("OLD SUB CONTENT\n")
        before = _snapshot(out)
        raised = None
        try:
            p.save(cfg, target, format=fmt, overwrite=overwrite, multifile=True)
        except Exception as ex:
            raised = ex
        after = _snapshot(out)
        must_refuse = (not overwrite) and (target_exists or sub_exists)
        must_fail = fault != "none"
        if (must_refuse or must_fail) and raised is None:
            return Fail("save:succeeded-although-it-must-fail", refuse=must_refuse, fault=fault, layout="dict-only")
        if raised is not None and not (must_refuse or must_fail):
            return Fail("save:failed-on-a-valid-configuration", exc=type(raised).__name__, msg=str(raised)[:200], layout="dict-only")
        if must_fail:
            if after != before:
                return Fail("save:failed-but-files-changed", fault=fault, layout="dict-only", changed=[k for k in set(before) | set(after) if before.get(k) != after.get(k)])
            return True
        if must_refuse:
            for k, v in before.items():
                if after.get(k) != v:
                    return Fail("save:refused-overwrite-but-existing-file-changed", file=k, layout="dict-only")
            return True
        back = strip_meta(parser().parse_path(target)).clone()
        for ns in (back, expected):
            ns.pop("cfg", None)
        r = same(expected, back)
        if r:
            return Fail("save:saved-path-parses-to-different-configuration", where=r, layout="dict-only")
        return True
    finally:
        os.chdir(cwd)
        shutil.rmtree(root, ignore_errors=True)


def dict_only(fmt="yaml"):
    _dict_only_once(True, False, False, "none", fmt)

    def harness():
        overwrite = S.flag("overwrite")
        target_exists = S.flag("target_exists")
        sub_exists = S.flag("sub_exists")
        fault = S.pick("fault", ["none", "invalid", "unserialisable"])
        S.note("fault:" + fault)
        if S.replaying is not None:
            return _dict_only_once(overwrite, target_exists, sub_exists, fault, fmt)
        from crosshair.tracers import NoTracing

        with NoTracing():
            return _dict_only_once(overwrite, target_exists, sub_exists, fault, fmt)

    return harness


def _same_basename_once(overwrite, fmt):
    """Two sub-files with the same base name in different source directories: save writes sub-files flat, next to the main file.
    It may refuse; if it succeeds the saved path must reproduce both sections."""
    from jsonargparse import ActionConfigFile, ArgumentParser, strip_meta

    from ..fixtures import Inner
    from ..shapes import same

    def parser():
        p = ArgumentParser(exit_on_error=False)
        p.add_argument("--cfg", action=ActionConfigFile)
        p.add_argument("--train", type=Inner, default=Inner())
        p.add_argument("--eval", type=Inner, default=Inner())
        return p

    root = tempfile.mkdtemp(prefix="c18s_")
    cwd = os.getcwd()
    try:
        src, out = os.path.join(root, "src"), os.path.join(root, "out")
        for d in (os.path.join(src, "train"), os.path.join(src, "eval"), out):
            os.makedirs(d)
        with open(os.path.join(src, "train", "params.yaml"), "w") as f:
            f.write("k: 64\nr: 0.5\n")
        with open(os.path.join(src, "eval", "params.yaml"), "w") as f:
            f.write("k: 1\nr: 0.0\n")
        with open(os.path.join(src, "main.yaml"), "w") as f:
            f.write("train: train/params.yaml\neval: eval/params.yaml\n")
        p = parser()
        cfg = p.parse_path(os.path.join(src, "main.yaml"))
        expected = strip_meta(cfg).clone()
        target = os.path.join(out, "main.yaml" if fmt == "yaml" else "main.json")
        try:
            p.save(cfg, target, format=fmt, overwrite=overwrite, multifile=True)
        except Exception:
            return True  # a refusal is acceptable: nothing existed before, so nothing can have been destroyed
        back = strip_meta(parser().parse_path(target)).clone()
        for ns in (back, expected):
            ns.pop("cfg", None)
        r = same(expected, back)
        if r:
            return Fail("save:saved-path-parses-to-different-configuration", where=r, layout="same-basename", overwrite=overwrite)
        return True
    finally:
        os.chdir(cwd)
        shutil.rmtree(root, ignore_errors=True)


def same_basename(fmt="yaml"):
    _same_basename_once(False, fmt)

    def harness():
        overwrite = S.flag("overwrite")
        S.note("fault:none")
        with untraced():
            return _same_basename_once(overwrite, fmt)

    return harness


def main(rep, tier):
    rep.functions = FUNCTIONS
    rep.rule = ("one path per fault schedule (overwrite, multifile, target exists, sub-file exists, loaded from sub-files, fault kind, invalid value); "
                "non-trivial = save ran and the directory snapshots were compared")
    rep.bounds = dict(schedule_bits=5, faults=FAULTS, invalid_window=[-2, 0], formats=["yaml", "json"] if tier == "quick" else ["yaml", "json", "json_indented"])
    rep.assumptions = [
        "faults: a value that fails validation (PositiveInt <= 0), a value that validates but cannot be serialised (a lambda for a Callable argument), "
        "an invalid value inside a section that is written to a sub-file; I/O errors in the middle of a write are outside the statement",
        "a refusal to overwrite must leave every pre-existing file byte-identical (a sub-file refusal may leave an earlier, newly created sub-file behind)",
        "real files in a per-path temp directory; the schedule is solver-chosen, the body runs outside the tracer",
        "sub-file references: a sibling name, a sub-directory ('parts/g.yaml') and a parent directory ('../shared/g.yaml'); an edit made after loading must be in the saved files",
        "layout 'dict-only': the only sub-file belongs to a Dict[str,int] argument with enable_path (no Namespace-valued sub-file)",
    ]
    fmts = ["yaml", "json"] if tier == "quick" else ["yaml", "json", "json_indented"]
    results = run_jobs([dict(module="c18", func="schedule", kwargs=dict(fmt=f), timeout=600) for f in fmts]
                       + [dict(module="c18", func="dict_only", kwargs=dict(fmt=f), timeout=300) for f in fmts]
                       + [dict(module="c18", func="same_basename", kwargs=dict(fmt="yaml"), timeout=300)])
    fails = absorb(rep, results, require_tags=tuple("fault:" + f for f in FAULTS))
    groups = {}
    for cls, samples in fails.items():
        for smp in samples:
            v = smp["values"]
            groups.setdefault((cls, bool(v.get("multifile")), smp["info"].get("fault", "")), []).append(smp)
    for (cls, multifile, fault), samples in groups.items():
        reported = False
        for smp in samples:
            payload = dict(module="c18", func=smp["harness"], kwargs=smp["kwargs"], ordered=smp["values"].get("__order__", []))
            r = run_native("ch", "replay_path", payload)
            vals = dict(multifile=multifile, fault=fault, info=json.dumps(smp["info"], default=repr))
            if not r.get("reproduced"):
                rep.inconc(f"counterexample {cls} did not reproduce natively: {smp['info']} -> {r}")
                continue
            known = rep.match_finding(cls, vals)
            if known:
                rep.known_finding(known, f"{cls} multifile={multifile} fault={fault}")
            elif not reported:
                rep.violation(f"{cls} (multifile={multifile}, fault={fault}): {smp['info']} :: {r.get('detail')}", dict(module="ch", func="replay_path", payload=payload, cls=cls))
                reported = True
