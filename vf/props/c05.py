"""C05 — the same settings give the same configuration through every input channel.

E-SMT:  every JSON scalar literal (RFC 8259 number grammar, true/false/null) is given its JSON
        type by the yaml-mode loader and by the omegaconf loader (z3, unbounded length).
E-CH:   object channels with symbolic leaves (nested dict, flat dotted dict, Namespace);
        text channels (argv options, --cfg string, parse_string in yaml/json/omegaconf mode,
        environment variables) on solver-chosen concrete leaves, executed outside the tracer.
"""
import json

import z3

from .. import rx
from .. import yamlart as ya
from ..ch import S, Fail, absorb, native, run_jobs
from ..common import Inconclusive, run_native
from ..shapes import BY_NAME, same, shapes_for
from ..stubs import FORMAT_STUBS_NOTE, install_format_stubs

FUNCTIONS = [
    "jsonargparse._loaders_dumpers.get_yaml_default_loader (resolver table), load_value, load_basic; omegaconf loader table",
    "jsonargparse._core.ArgumentParser.parse_object/parse_args/parse_string/parse_env/_apply_actions/_load_env_vars/_check_value_key",
    "jsonargparse._typehints.ActionTypeHint.__call__/_check_type; jsonargparse._namespace.Namespace.__init__/_parse_key/dict_to_namespace",
    "jsonargparse._actions.ActionConfigFile.apply_config; jsonargparse._formatters.get_env_var",
]

# which dotted prefixes of each shape are branches (groups), so that a nested object can be
# re-spelled with dotted keys; everything else is a leaf value
BRANCHES = {
    "groups": ["g", "g.h"],
    "dataclass": ["o", "o.inner"],
    "dataclass_opt": ["q"],
    "class_group": ["m"],
    "subcommands": ["fit", "test"],
}
C05_SHAPES = ["wrong_kind", "scalars", "unions", "lists", "dicts", "tuples", "restricted", "dataclass", "dataclass_opt", "subclass", "groups", "subcommands", "class_group"]


def _flatten(obj, branches, prefix=""):
    out = {}
    for k, v in obj.items():
        key = f"{prefix}{k}"
        if isinstance(v, dict) and key in branches:
            out.update(_flatten(v, branches, key + "."))
        else:
            out[key] = v
    return out


def _to_ns(obj, branches, prefix=""):
    from jsonargparse import Namespace

    ns = Namespace()
    for k, v in obj.items():
        key = f"{prefix}{k}"
        if isinstance(v, dict) and key in branches:
            ns[k] = _to_ns(v, branches, key + ".")
        else:
            ns[k] = v
    return ns


def _try(fn):
    from jsonargparse import ArgumentError

    try:
        return ("ok", fn())
    except ArgumentError as ex:
        return ("rejected", str(ex)[:150])


def _compare(results):
    """results: list of (channel, (status, value)). All rejected, or all ok and equal."""
    base_name, (base_status, base_val) = results[0]
    for name, (status, val) in results[1:]:
        if status != base_status:
            return Fail("channels:accept-reject-differs", a=base_name, a_status=base_status, b=name, b_status=status,
                        detail=str(val if status == "rejected" else base_val)[:200])
        if status == "ok":
            r = same(base_val, val)
            if r:
                return Fail("channels:results-differ", a=base_name, b=name, where=r)
    return True


def obj_channels(shape):
    install_format_stubs()
    sh = BY_NAME[shape]
    parser = sh.build()
    branches = set(BRANCHES.get(shape, []))

    def harness():
        obj = sh.sym()
        if shape == "unions" and isinstance(obj.get("u"), str):
            return None
        import copy

        results = [
            ("nested-dict", _try(lambda: parser.parse_object(copy.deepcopy(obj)))),
            ("dotted-dict", _try(lambda: parser.parse_object(_flatten(copy.deepcopy(obj), branches)))),
            ("namespace", _try(lambda: parser.parse_object(_to_ns(copy.deepcopy(obj), branches)))),
        ]
        S.note(results[0][1][0])
        return _compare(results)

    return harness


def _render(v):
    """Text of a value for argv / environment: strings raw, everything else JSON."""
    if isinstance(v, str):
        return v
    return json.dumps(_jsonable(v))


def _jsonable(v):
    if isinstance(v, dict):
        return {str(k): _jsonable(x) for k, x in v.items()}
    if isinstance(v, (list, tuple)):
        return [_jsonable(x) for x in v]
    if isinstance(v, set):
        return sorted(v)
    return v


def _text_once(shape, obj):
    from jsonargparse import ActionConfigFile

    sh = BY_NAME[shape]
    branches = set(BRANCHES.get(shape, []))
    flat = _flatten(obj, branches)
    doc = json.dumps(_jsonable(obj))
    p = sh.build()
    results = [("object", _try(lambda: p.parse_object(_jsonable_obj(obj))))]
    results.append(("parse_string-yaml-mode", _try(lambda: sh.build().parse_string(doc))))
    for mode in ("json", "omegaconf"):
        def run(mode=mode):
            q = sh.build()
            q.parser_mode = mode
            return q.parse_string(doc)
        results.append((f"parse_string-{mode}-mode", _try(run)))

    def run_cfg():
        q = sh.build()
        q.add_argument("--cfg", action=ActionConfigFile)
        r = q.parse_args(["--cfg", doc])
        r = r.clone()
        del r["cfg"]
        return r

    results.append(("--cfg string", _try(run_cfg)))
    if shape == "subcommands":
        sub = obj["subcommand"]
        argv = [f"--top={_render(obj['top'])}", sub] + [f"--{k}={_render(v)}" for k, v in obj[sub].items()]
        env = {"APP_TOP": _render(obj["top"]), "APP_SUBCOMMAND": sub}
        env.update({f"APP_{sub.upper()}__{k.upper()}": _render(v) for k, v in obj[sub].items()})
    else:
        argv = [f"--{k}={_render(v)}" for k, v in flat.items()]
        # one environment variable per *argument of the parser*: a typed argument that holds a mapping (Optional[dataclass],
        # a subclass spec) has a single variable for the whole value, only groups have a variable per member
        dests = {a.dest for a in p._actions}
        env = {}

        def envify(prefix, value):
            if prefix in dests or not isinstance(value, dict):
                env["APP_" + prefix.replace(".", "__").upper()] = _render(value)
            else:
                for k, v in value.items():
                    envify(f"{prefix}.{k}", v)

        for k, v in obj.items():
            envify(k, v)
    results.append(("argv options", _try(lambda: sh.build().parse_args(argv))))
    results.append(("environment", _try(lambda: sh.build().parse_env(env))))

    def run_env_renamed():
        # the variable names follow the parser's current env_prefix, also when it is assigned after the parser was used
        q = sh.build()
        _try(lambda: q.parse_env({}))
        q.env_prefix = "ZZ"
        return q.parse_env({"ZZ_" + k[len("APP_"):]: v for k, v in env.items()})

    if shape != "subcommands":  # a sub-parser keeps the prefix it was attached with; nothing documents that a later assignment propagates
        results.append(("environment (env_prefix assigned after a first parse)", _try(run_env_renamed)))
    return results


def _jsonable_obj(obj):
    return obj


def text_channels(shape, window=(0, 1, 7), shard=None, nshards=1):
    sh = BY_NAME[shape]

    def harness():
        S.window = list(window)
        try:
            obj = sh.sym()
        finally:
            S.window = None
        if shape == "unions" and isinstance(obj.get("u"), str):
            return None
        if shard is not None and S.shard(nshards) != shard:
            return None
        if S.replaying is not None:
            results = _text_once(shape, obj)
        else:
            from crosshair.tracers import NoTracing

            with NoTracing():
                results = _text_once(shape, obj)
        S.note(results[0][1][0])
        return _compare(results)

    return harness


# ---- E-SMT ---------------------------------------------------------------------------------


def replay_literal(payload):
    def run():
        from typing import Any

        from jsonargparse import ArgumentParser

        t = payload["literal"]
        out = []
        for mode in ("yaml", "json", "omegaconf"):
            p = ArgumentParser(exit_on_error=False, parser_mode=mode)
            p.add_argument("--v", type=Any)
            out.append((mode, _try(lambda: p.parse_string('{"v": ' + t + "}"))))
        base = out[1]  # json mode is the reference reading of a JSON document
        for mode, res in out:
            if res[0] != base[1][0]:
                return Fail("json-literal:accept-reject-differs", literal=t, mode=mode)
            if res[0] == "ok":
                a, b = res[1].v, base[1][1].v
                if type(a) is not type(b) or not (a == b or (a != a and b != b)):
                    return Fail("json-literal:read-differently", literal=t, mode=mode, got=repr(a), json=repr(b))
        return True

    return native(run)


def smt_layer(rep, tier):
    art = ya.capture()
    tables = [("yaml", art["loader_table"])] + ([("omegaconf", art["omegaconf_table"])] if art["omegaconf_table"] else [])
    s = z3.String("s")
    q = rx.Q(rep, cross_check=(tier == "thorough"))
    for name in ("JSON_NUMBER", "JSON_INT"):
        n, bad = rx.validate(getattr(ya, name), "match", n=30)
        if bad:
            raise Inconclusive(f"regex translation disagrees with re for {name}: {bad[:3]}")
    nonl = z3.Not(z3.Contains(s, z3.StringVal("\n")))
    num = z3.InRe(s, rx.lang(ya.JSON_NUMBER, "match"))
    isint = z3.InRe(s, rx.lang(ya.JSON_INT, "match"))
    for tname, table in tables:
        ids = rx.all_tag_ids(table)
        t = rx.tag_term(table, s, ids)
        checks = [
            (f"{tname}: JSON integer literals are read as int (unbounded length)", [nonl, isint, t != ids[ya.INT_TAG]]),
            (f"{tname}: JSON number literals with fraction/exponent are read as float (unbounded length)", [nonl, num, z3.Not(isint), t != ids[ya.FLOAT_TAG]]),
            (f"{tname}: true/false are read as bool", [z3.Or(s == z3.StringVal("true"), s == z3.StringVal("false")), t != ids[ya.BOOL_TAG]]),
            (f"{tname}: null is read as null", [s == z3.StringVal("null"), t != ids[ya.NULL_TAG]]),
        ]
        for name, cons in checks:
            block = []
            for _ in range(10):
                r, m = q.ask(name, *cons, *block)
                if r == "unsat":
                    rep.nontrivial += 1
                    break
                w = rx.decode(m.eval(s, model_completion=True))
                payload = dict(literal=w)
                res = run_native("props.c05", "replay_literal", payload)
                if res.get("reproduced"):
                    known = rep.match_finding(res.get("cls"), dict(literal=w))
                    if known:
                        rep.known_finding(known, w)
                        block.append(s != z3.StringVal(w))
                        continue
                    rep.violation(f"{name}: literal {w!r}: {res.get('detail')}", dict(module="props.c05", func="replay_literal", payload=payload))
                    break
                block.append(s != z3.StringVal(w))
            else:
                rep.inconc(f"{name}: 10 solver models did not reproduce through the API")
        r, _ = q.ask(f"W {tname}: some JSON float literal exists", nonl, num, z3.Not(isint))
        rep.queries[-1]["result"] = "sat-expected" if r == "sat" else r


def ast_layer(rep, tier):
    """load_basic (the hand-written pre-loader every text value passes first, in every parser mode) agrees with the JSON type
    of every JSON number literal - decided on an encoding generated from its source AST."""
    from .. import ast2smt as A
    import jsonargparse._loaders_dumpers as ld

    n_, bad_ = A.validate_builtin_models(30 if tier == "quick" else 100)
    if bad_:
        raise Inconclusive(f"model of int()/float() acceptance disagrees with the builtins: {bad_[:4]}")
    se = A.SymExec(ld.load_basic)
    outs = se.run()
    for w in ["0", "-0", "12", "-3", "1.5", "1e5", "1E5", "-1e-5", "1e+5", "0.0", "-0.5e-3", "10", "1.0e10", "true", "null", "x"]:
        k = A.concrete_kind(ld.load_basic, w)
        k = "return:name:not_loaded" if k.startswith("return:name") else k
        e = A.encoded_kinds(se, outs, w)
        if e != {k}:
            raise Inconclusive(f"AST encoding of load_basic disagrees with the real function on {w!r}: {k} vs {sorted(e)}")
    s = se.param
    num = z3.InRe(s, rx.lang(ya.JSON_NUMBER, "match"))
    isint = z3.InRe(s, rx.lang(ya.JSON_INT, "match"))

    def kinds(*ks):
        cs = [o.cond() for o in outs if o.kind in ks]
        return z3.Or(*cs) if cs else z3.BoolVal(False)

    q = rx.Q(rep, timeout_ms=120000, cross_check=False)
    bound = z3.Length(s) <= (16 if tier == "quick" else 24)
    checks = [
        ("load_basic: a JSON integer literal is never read as float/bool/null (|t|<=%d)" % (16 if tier == "quick" else 24), [bound, isint, kinds("return:float", "return:True", "return:False", "return:None")]),
        ("load_basic: a JSON number with fraction/exponent is never read as int/bool/null", [bound, num, z3.Not(isint), kinds("return:int", "return:True", "return:False", "return:None")]),
        ("load_basic: never raises on a JSON number literal", [bound, num, kinds(*[o.kind for o in outs if o.kind.startswith("raise")])]),
    ]
    for name, cons in checks:
        r, m = q.ask(name, *cons)
        if r == "unsat":
            rep.nontrivial += 1
            continue
        w = rx.decode(m.eval(s, model_completion=True))
        payload = dict(literal=w)
        res = run_native("props.c05", "replay_literal", payload)
        if res.get("reproduced"):
            rep.violation(f"{name}: literal {w!r}: {res.get('detail')}", dict(module="props.c05", func="replay_literal", payload=payload))
        else:
            rep.inconc(f"{name}: model {w!r} did not reproduce through the API")
    # witness (concrete, the sat search over the replace chain is slow): load_basic itself reads '1.5' and '1e5' as float
    for w in ("1.5", "1e5"):
        if A.encoded_kinds(se, outs, w) != {"return:float"}:
            raise Inconclusive(f"vacuity: the encoding does not read {w!r} as float")
    rep.nontrivial += 1


def main(rep, tier):
    rep.functions = FUNCTIONS + ["jsonargparse._loaders_dumpers.load_basic (E-AST: symbolic execution of its source AST into z3 string constraints)"]
    rep.stubs = [FORMAT_STUBS_NOTE]
    rep.rule = ("E-SMT: one evaluation per query (non-trivial = unsat inclusion); E-CH object channels: one path per branch of the real code on the "
                "shape's symbolic leaves; text channels: one path per solver-chosen concrete leaf vector; non-trivial = all channels compared")
    shapes = [s for s in C05_SHAPES if s in BY_NAME]
    rep.bounds = dict(json_literals="unbounded length", shapes=shapes, text_window=[0, 1, 7], text_shapes="all" if tier == "thorough" else ["scalars", "lists", "groups", "subcommands", "dicts", "dataclass_opt"])
    rep.assumptions = [
        "input domain of the E-SMT part: RFC 8259 number grammar and the literals true/false/null; JSON strings/escapes are outside (scanner level)",
        "jsonnet and toml parser modes are outside; json mode reads JSON by definition (reference reading in the replay)",
        "strings only at str-typed positions (Union[int,str] is exercised with int values only), rendered raw on argv and in the environment",
        "None only at Optional positions ('null' at a non-Optional position is accepted from objects/config and rejected from argv/env: undecided, excluded)",
        "text channels run on concrete leaves from the window {0,1,7} (floats from a menu), outside the tracer",
    ]
    smt_layer(rep, tier)
    ast_layer(rep, tier)
    jobs = [dict(module="c05", func="obj_channels", kwargs=dict(shape=s), timeout=200 if tier == "quick" else 900) for s in shapes]
    tshapes = shapes if tier == "thorough" else ["scalars", "lists", "groups", "subcommands", "dicts", "dataclass_opt", "wrong_kind"]
    tjobs = []
    for s_ in tshapes:
        n = {"scalars": 6, "lists": 4 if tier == "quick" else 16, "dicts": 2, "restricted": 3, "unions": 3}.get(s_, 1)
        for sh in range(n):
            kw = dict(shape=s_)
            if s_ == "scalars" or (s_ == "lists" and tier == "quick"):
                kw["window"] = [0, 7]
            if n > 1:
                kw.update(shard=sh, nshards=n)
            tjobs.append(dict(module="c05", func="text_channels", kwargs=kw, timeout=400 if tier == "quick" else 1500))
    results = run_jobs(jobs + tjobs)
    fails = absorb(rep, results, require_tags=("ok",))
    groups = {}
    for cls, samples in fails.items():
        for smp in samples:
            groups.setdefault((cls, smp["harness"], smp["kwargs"]["shape"]), []).append(smp)
    for (cls, hname, shape), samples in groups.items():
        reported = False
        for smp in samples:
            payload = dict(module="c05", func=hname, kwargs=smp["kwargs"], ordered=smp["values"].get("__order__", []))
            r = run_native("ch", "replay_path", payload)
            vals = dict(shape=shape, harness=hname, info=json.dumps(smp["info"], default=repr))
            if not r.get("reproduced"):
                rep.inconc(f"counterexample {cls} on {shape} ({hname}) did not reproduce natively: {smp['info']} -> {r}")
                continue
            known = rep.match_finding(cls, vals)
            if known:
                rep.known_finding(known, f"{cls} {shape}")
            elif not reported:
                rep.violation(f"{cls} on shape {shape} ({hname}): {smp['info']} :: {r.get('detail')}", dict(module="ch", func="replay_path", payload=payload, cls=cls))
                reported = True
