"""C19 — path types accept exactly what the mode says; relative paths follow the config.

kernel:   Path.__init__ against a *symbolic file system* (jsonargparse._util.os replaced by a
          delegating fake whose access/stat/isdir/isfile answer from z3 variables).
ctx:      change_to_path_dir nesting with fake getcwd/chdir; cwd and current_path_dir restored.
api:      real directories, config files including each other, relative Path_fr arguments.
"""
import itertools
import os
import stat as stat_mod
import types

from ..ch import S, Fail, absorb, native, run_jobs
from ..common import run_native

FUNCTIONS = [
    "jsonargparse._util.Path.__init__/_check_mode/relative/absolute/__str__/__fspath__",
    "jsonargparse._util.change_to_path_dir",
    "jsonargparse._core.ArgumentParser.parse_path/parse_args (config files with relative paths)",
]

MISSING, FILE, DIR, FIFO = 0, 1, 2, 3
KIND_NAMES = ["missing", "file", "dir", "fifo"]
CWD = "/w"
HOME = "/w/d1"
CHAIN = ["/w/d1/d2/f", "/w/d1/d2", "/w/d1", "/w"]  # target, parent, grand-parent, cwd


class SymFS:
    """State of the four chain nodes. kind/r/w/x are symbolic (or concrete when replaying)."""

    def __init__(self, concrete=None, all_exist=False):
        self.nodes = {}
        self.all_exist = all_exist
        for i, p in enumerate(CHAIN):
            if concrete is not None:
                self.nodes[p] = dict(concrete[p])
            elif p == CWD:
                self.nodes[p] = dict(kind=DIR, r=True, w=S.bool("w_cwd"), x=True)
            else:
                self.nodes[p] = dict(kind=S.int(f"kind{i}", 0, 3 if i == 0 else 2), r=S.bool(f"r{i}"), w=S.bool(f"w{i}"), x=S.bool(f"x{i}"))
        self.nodes["/"] = dict(kind=DIR, r=True, w=False, x=True)

    def consistent(self):
        # a node can exist only below a directory
        for child, parent in zip(CHAIN, CHAIN[1:]):
            if self.nodes[parent]["kind"] != DIR and self.nodes[child]["kind"] != MISSING:
                return False
        return True

    def node(self, path):
        path = os.path.normpath(path)
        n = self.nodes.get(path)
        if n is None:
            if self.all_exist:
                return dict(kind=FILE if path.endswith(".yaml") else DIR, r=True, w=True, x=True)
            # anything else below a chain node: missing
            return dict(kind=MISSING, r=False, w=False, x=False)
        return n


def make_fake_os(fsbox, cwdbox):
    real = os
    p = types.SimpleNamespace(**{k: getattr(real.path, k) for k in dir(real.path) if not k.startswith("__")})
    o = types.SimpleNamespace(**{k: getattr(real, k) for k in dir(real) if not k.startswith("__")})

    def isdir(path):
        return fsbox[0].node(path)["kind"] == DIR

    def isfile(path):
        return fsbox[0].node(path)["kind"] == FILE

    def exists(path):
        return fsbox[0].node(path)["kind"] != MISSING

    def realpath(path, **kw):
        path = real.fspath(path)
        if not real.path.isabs(path):
            path = real.path.join(cwdbox[0], path)
        return real.path.normpath(path)

    def expanduser(path):
        if path == "~" or path.startswith("~/"):
            return HOME + path[1:]
        return path

    def access(path, mode, **kw):
        n = fsbox[0].node(path)
        if n["kind"] == MISSING:
            return False
        if mode == real.F_OK:
            return True
        ok = True
        if mode & real.R_OK:
            ok = ok and bool(n["r"])
        if mode & real.W_OK:
            ok = ok and bool(n["w"])
        if mode & real.X_OK:
            ok = ok and bool(n["x"])
        return ok

    def stat(path, **kw):
        n = fsbox[0].node(path)
        k = n["kind"]
        if k == MISSING:
            raise FileNotFoundError(2, "No such file or directory (symbolic fs)", path)
        if k == FILE:
            m = stat_mod.S_IFREG
        elif k == DIR:
            m = stat_mod.S_IFDIR
        else:
            m = stat_mod.S_IFIFO
        return types.SimpleNamespace(st_mode=m | 0o644)

    def getcwd():
        return cwdbox[0]

    def chdir(path):
        cwdbox[1].append(path)
        cwdbox[0] = real.path.normpath(real.path.join(cwdbox[0], path))

    p.isdir, p.isfile, p.exists, p.realpath, p.expanduser = isdir, isfile, exists, realpath, expanduser
    p.abspath = lambda path: real.path.normpath(real.path.join(cwdbox[0], path))
    o.path = p
    o.access, o.stat, o.getcwd, o.chdir = access, stat, getcwd, chdir
    return o


def oracle(mode, fs, abs_path, std_io):
    """The docstring of Path read as a predicate. Returns True/False, or None if the
    documentation does not decide the case (excluded from the claim)."""
    if std_io:
        return True
    n = fs.node(abs_path)
    kind = n["kind"]
    exists = kind != MISSING
    ok = True
    if "c" in mode:
        if kind == FIFO and "f" in mode:
            return None  # existing fifo under 'fc': the docs do not say whether a fifo is a file here
        # creatable: the directory that would receive the new entry must exist and be writeable
        chain = CHAIN[CHAIN.index(os.path.normpath(abs_path)) + 1 :]
        if mode.count("c") == 1:
            par = fs.node(chain[0])
            ok = ok and par["kind"] == DIR and bool(par["w"])
        else:
            # nearest existing ancestor must be a directory and writeable
            found = False
            for a in chain + ["/"]:
                an = fs.node(a)
                if an["kind"] != MISSING:
                    ok = ok and an["kind"] == DIR and bool(an["w"])
                    found = True
                    break
            ok = ok and found
        if "d" in mode and exists:
            ok = ok and kind == DIR
        if "f" in mode and exists:
            ok = ok and kind == FILE
    else:
        if "d" in mode:
            ok = ok and kind == DIR
        if "f" in mode:
            ok = ok and (kind == FILE or kind == FIFO)
    acc_r = exists and bool(n["r"])
    acc_w = exists and bool(n["w"])
    acc_x = exists and bool(n["x"])
    if "r" in mode:
        ok = ok and acc_r
    if "w" in mode:
        ok = ok and acc_w
    if "x" in mode:
        ok = ok and acc_x
    if "D" in mode:
        ok = ok and kind != DIR
    if "F" in mode:
        ok = ok and not (kind == FILE or kind == FIFO)
    if "R" in mode:
        ok = ok and not acc_r
    if "W" in mode:
        ok = ok and not acc_w
    if "X" in mode:
        ok = ok and not acc_x
    return ok


SPELLINGS = ["d1/d2/f", "/w/d1/d2/f", "./d1/d2/f", "~/d2/f", "-", "d1/d2/../d2/f"]


def _path_once(mode, spelling, fs, cwd_arg):
    import jsonargparse._util as U

    cwdbox = [CWD, []]
    fake = make_fake_os([fs], cwdbox)
    real_os = U.os
    U.os = fake
    try:
        try:
            p = U.Path(spelling, mode=mode, cwd=(CWD if cwd_arg else None))
            accepted = True
        except U.PathError:
            accepted = False
        except Exception as ex:
            return Fail("path:rejection-is-not-PathError", exc=type(ex).__name__, mode=mode, spelling=spelling)
    finally:
        U.os = real_os
    std_io = spelling == "-"
    exp_abs = os.path.join(CWD, fake.path.expanduser(spelling))
    exp = oracle(mode, fs, exp_abs, std_io)
    if exp is None:
        return None
    S.note("accept" if exp else "reject")
    if accepted != exp:
        return Fail("path:accepts-but-mode-not-satisfied" if accepted else "path:rejects-although-mode-satisfied", mode=mode, spelling=spelling)
    if accepted:
        if p.relative != spelling or str(p) != spelling:
            return Fail("path:relative-is-not-the-given-spelling", mode=mode, spelling=spelling)
        if p.absolute != exp_abs or os.fspath(p) != exp_abs or p(absolute=True) != exp_abs:
            return Fail("path:absolute-is-not-cwd-joined", mode=mode, spelling=spelling, got=p.absolute)
        if p.mode != mode:
            return Fail("path:mode-attribute", mode=mode)
        if cwdbox[1]:
            return Fail("path:chdir-called", mode=mode)
    return True


def valid_modes(maxflags):
    from jsonargparse._util import Path

    flags = ["f", "d", "r", "w", "x", "c", "cc", "F", "D", "R", "W", "X"]
    out = []
    for n in range(1, maxflags + 1):
        for combo in itertools.combinations(flags, n):
            if "c" in combo and "cc" in combo:
                continue
            m = "".join(combo)
            try:
                Path._check_mode(m)
            except ValueError:
                continue
            out.append(m)
    return out


def kernel(maxflags, shard, nshards):
    modes = valid_modes(maxflags)[shard::nshards]

    def harness():
        mode = S.pick("mode", modes)
        spelling = S.pick("spelling", SPELLINGS)
        cwd_arg = S.flag("cwd_arg")
        fs = SymFS()
        if not fs.consistent():
            return None
        return _path_once(mode, spelling, fs, cwd_arg)

    return harness


def kernel_concrete_fs(values, modes_n, shard, nshards):
    conc = {}
    for i, p in enumerate(CHAIN):
        if p == CWD:
            conc[p] = dict(kind=DIR, r=True, w=bool(values.get("w_cwd", False)), x=True)
        else:
            conc[p] = dict(kind=int(values.get(f"kind{i}", 0)), r=bool(values.get(f"r{i}", False)), w=bool(values.get(f"w{i}", False)), x=bool(values.get(f"x{i}", False)))
    return conc


# ---- native replay of a kernel counterexample on a REAL file system -----------------------


def replay_kernel(payload):
    """Build the counterexample's file system for real in a temp directory and call the real
    Path there (no fake os). Only meaningful when not running as root for permission bits; when
    root, permission-dependent cases fall back to the fake-os replay."""
    import shutil
    import tempfile

    import jsonargparse._util as U

    mode, spelling, conc, cwd_arg = payload["mode"], payload["spelling"], payload["fs"], payload["cwd_arg"]
    fs = SymFS(concrete=conc)
    fake_res = native(_path_once, mode, spelling, fs, cwd_arg)
    # real file system replay
    real = dict(attempted=False)
    perms_matter = any(c in mode for c in "rwxRWXc")
    if not (perms_matter and os.geteuid() == 0) and spelling != "-":
        root = tempfile.mkdtemp(prefix="c19_")
        old = os.getcwd()
        try:
            w = os.path.join(root, "w")
            os.mkdir(w)
            rel = {"/w/d1": "d1", "/w/d1/d2": "d1/d2", "/w/d1/d2/f": "d1/d2/f"}
            for pth in ["/w/d1", "/w/d1/d2", "/w/d1/d2/f"]:
                k = conc[pth]["kind"]
                t = os.path.join(w, rel[pth])
                if k == DIR:
                    os.mkdir(t)
                elif k == FILE:
                    open(t, "w").close()
                elif k == FIFO:
                    os.mkfifo(t)
            os.chdir(w)
            sp = spelling
            if sp.startswith("/w/"):
                sp = w + sp[2:]
            if sp.startswith("~"):
                os.environ["HOME"] = os.path.join(w, "d1")
            try:
                U.Path(sp, mode=mode)
                acc = True
                exc = None
            except U.PathError:
                acc = False
                exc = "PathError"
            except Exception as ex:
                acc = None
                exc = type(ex).__name__
            real = dict(attempted=True, accepted=acc, exc=exc)
        finally:
            os.chdir(old)
            shutil.rmtree(root, ignore_errors=True)
    fake_res["real_fs"] = real
    if real.get("attempted") and fake_res["reproduced"]:
        cls = fake_res.get("cls") or ""
        if cls == "path:rejection-is-not-PathError":
            fake_res["reproduced"] = real["exc"] not in (None, "PathError")
        elif cls == "path:accepts-but-mode-not-satisfied":
            fake_res["reproduced"] = real["accepted"] is True
        elif cls == "path:rejects-although-mode-satisfied":
            fake_res["reproduced"] = real["accepted"] is False
    return fake_res


# ---- mode strings and the copy constructor ------------------------------------------------------

MODE_ALPHABET = "fdrwxcusFDRWXz"


def mode_oracle(mode):
    """Is the mode string valid? (docstring + _check_mode contract: known flags, each at most once, 'c' at most twice,
    not both f and d, d not with u or s)"""
    if any(ch_ not in "fdrwxcusFDRWX" for ch_ in mode):
        return False
    for ch_ in set(mode):
        if mode.count(ch_) > (2 if ch_ == "c" else 1):
            return False
    if "f" in mode and "d" in mode:
        return False
    if "d" in mode and ("u" in mode or "s" in mode):
        return False
    return True


def modes(maxlen):
    from jsonargparse._util import Path

    def harness():
        n = S.choice("len", maxlen + 1)
        mode = "".join(MODE_ALPHABET[S.choice(f"c{i}", len(MODE_ALPHABET))] for i in range(n))
        try:
            Path._check_mode(mode)
            ok = True
        except ValueError:
            ok = False
        S.note("accept" if ok else "reject")
        if ok != mode_oracle(mode):
            return Fail("mode:wrong-verdict-on-mode-string", mode=mode, accepted=ok)
        return True

    return harness


def _copy_once(mode, spelling, cwd_arg):
    """Path(Path) keeps spelling, location, cwd; equality with itself and with its spelling."""
    import jsonargparse._util as U

    fs = SymFS(concrete={p: dict(kind=DIR, r=True, w=True, x=True) for p in CHAIN}, all_exist=True)
    fs.nodes[CHAIN[0]] = dict(kind=FILE, r=True, w=True, x=True)
    cwdbox = [CWD, []]
    real_os = U.os
    U.os = make_fake_os([fs], cwdbox)
    try:
        p = U.Path(spelling, mode=mode, cwd=(CWD if cwd_arg else None))
        cwdbox[0] = "/w/d1"  # the process moves elsewhere: a copy must not re-resolve
        q = U.Path(p, mode=mode)
    finally:
        U.os = real_os
    S.note("accept")
    if q.relative != p.relative or q.absolute != p.absolute or q.cwd != p.cwd or q.mode != mode:
        return Fail("path:copy-constructor-changes-the-path", spelling=spelling, got=(q.relative, q.absolute, q.cwd))
    if not (q == p) or not (p == spelling) or (p != q):
        return Fail("path:equality", spelling=spelling)
    if p.absolute != os.path.join(CWD, spelling) and not spelling.startswith(("/", "~")):
        return Fail("path:absolute-is-not-cwd-joined", spelling=spelling, got=p.absolute)
    return True


def copies():
    def harness():
        mode = S.pick("mode", ["fr", "fc", "frw", "fcc"])
        spelling = S.pick("spelling", ["d1/d2/f", "/w/d1/d2/f", "./d1/d2/f"])
        cwd_arg = S.flag("cwd_arg")
        S.note("reject")
        return _copy_once(mode, spelling, cwd_arg)

    return harness


# ---- change_to_path_dir -----------------------------------------------------------------


def _ctx_once(kinds, raises):
    """kinds: per nesting level one of 'file','dir','url','none'."""
    import jsonargparse._util as U

    cwdbox = ["/w", []]
    fs = SymFS(concrete={p: dict(kind=DIR, r=True, w=True, x=True) for p in CHAIN}, all_exist=True)
    fake = make_fake_os([fs], cwdbox)
    real_os = U.os
    U.os = fake
    try:
        paths = []
        for lvl, k in enumerate(kinds):
            if k == "file":
                paths.append((k, U.Path(f"/w/d1/l{lvl}/f.yaml", mode="fr")))
            elif k == "dir":
                paths.append((k, U.Path(f"/w/d1/l{lvl}", mode="dr")))
            elif k == "url":
                paths.append((k, U.Path(f"http://example.com/l{lvl}/f.yaml", mode="u")))
            else:
                paths.append((k, None))
        before_cwd = cwdbox[0]
        before_cpd = U.current_path_dir.get()
        seen = []

        class Boom(Exception):
            pass

        def nest(i):
            if i == len(paths):
                if raises:
                    raise Boom()
                return
            k, p = paths[i]
            cpd_outer = U.current_path_dir.get()
            cwd_outer = cwdbox[0]
            with U.change_to_path_dir(p) as d:
                if k == "file" or k == "dir":
                    want = f"/w/d1/l{i}"
                    if cwdbox[0] != want or d != want or U.current_path_dir.get() != want:
                        seen.append(("wrong-dir", i, cwdbox[0], d))
                elif k == "url":
                    want = f"http://example.com/l{i}"
                    if d != want or cwdbox[0] != cwd_outer:
                        seen.append(("wrong-url-dir", i, d, cwdbox[0]))
                else:
                    if d != cpd_outer or cwdbox[0] != cwd_outer:
                        seen.append(("none-changed", i, d))
                nest(i + 1)
            if cwdbox[0] != cwd_outer or U.current_path_dir.get() != cpd_outer:
                seen.append(("not-restored-at-level", i))

        try:
            nest(0)
        except Boom:
            pass
        if seen:
            return Fail("ctx:" + seen[0][0], seen=seen[:3], kinds=kinds, raises=raises)
        if cwdbox[0] != before_cwd:
            return Fail("ctx:cwd-not-restored", kinds=kinds, raises=raises, cwd=cwdbox[0])
        if U.current_path_dir.get() != before_cpd:
            return Fail("ctx:current_path_dir-not-restored", kinds=kinds, raises=raises)
        return True
    finally:
        U.os = real_os


def ctx(depth):
    kinds_all = ["file", "dir", "url", "none"]

    def harness():
        kinds = [S.pick(f"kind{i}", kinds_all) for i in range(depth)]
        raises = S.flag("raises")
        S.note("raises" if raises else "returns")
        return _ctx_once(kinds, raises)

    return harness


def replay_ctx(payload):
    return native(_ctx_once, payload["kinds"], payload["raises"])


# ---- api: nested config files on a real file system ----------------------------------------

_API = {}


def _api_setup():
    """root/A/main.yaml -> g: ../B/g.yaml ; root/B/g.yaml -> p: data/x.txt, h: ../C/h.yaml ;
    root/C/h.yaml -> q: y.txt. Every relative path is relative to the file that mentions it."""
    import tempfile

    if _API:
        return _API
    root = os.path.realpath(tempfile.mkdtemp(prefix="c19api_"))
    for d in ("A", "B/data", "C", "elsewhere"):
        os.makedirs(os.path.join(root, d))

    def w(rel, text):
        with open(os.path.join(root, rel), "w") as f:
            f.write(text)

    w("A/a.txt", "a")
    w("B/data/x.txt", "x")
    w("C/y.txt", "y")
    w("A/main.yaml", "top: a.txt\ng: ../B/g.yaml\n")
    w("B/g.yaml", "p: data/x.txt\nh: ../C/h.yaml\n")
    w("C/h.yaml", "q: y.txt\n")
    # a list of paths kept in a file of its own, as YAML sequence / JSON array / one path per line; entries are relative to that file
    w("B/list.yaml", "- data/x.txt\n- ../C/y.txt\n")
    w("B/list.json", '["data/x.txt", "../C/y.txt"]')
    w("B/list.txt", "data/x.txt\n../C/y.txt\n")
    os.makedirs(os.path.join(root, "elsewhere", "data"))
    w("elsewhere/data/x.txt", "decoy")  # same relative name under another directory
    w("A/main_list.yaml", "top: a.txt\ng: ../B/g.yaml\nfiles: ../B/list.yaml\n")
    w("A/main_missing_top.yaml", "top: nope.txt\ng: ../B/g.yaml\n")
    w("A/main_missing_g.yaml", "top: a.txt\ng: ../B/g_bad.yaml\n")
    w("B/g_bad.yaml", "p: data/nope.txt\nh: ../C/h.yaml\n")
    w("A/main_missing_h.yaml", "top: a.txt\ng: ../B/g_badh.yaml\n")
    w("B/g_badh.yaml", "p: data/x.txt\nh: ../C/h_bad.yaml\n")
    w("C/h_bad.yaml", "q: nope.txt\n")
    # the entry config file reached through a symbolic link whose target lives in another directory: relative paths follow the
    # directory of the file the user named (A/), not the directory of the link's target (store/), where decoys of the same name sit
    os.makedirs(os.path.join(root, "store"))
    w("store/main_target.yaml", "top: a.txt\ng: ../B/g.yaml\n")
    w("store/a.txt", "decoy")
    os.symlink("../store/main_target.yaml", os.path.join(root, "A", "main_link.yaml"))
    _API["root"] = root
    return _API


def _api_parser():
    from dataclasses import dataclass

    from jsonargparse import ActionConfigFile, ArgumentParser
    from jsonargparse.typing import Path_fr

    @dataclass
    class H:
        q: Path_fr

    @dataclass
    class G:
        p: Path_fr
        h: H

    parser = ArgumentParser(exit_on_error=False)
    parser.add_argument("--cfg", action=ActionConfigFile)
    parser.add_argument("--top", type=Path_fr)
    parser.add_argument("--g", type=G)
    from typing import List, Optional

    parser.add_argument("--files", type=Optional[List[Path_fr]], default=None, enable_path=True)
    return parser


def _api_once(cwd_choice, entry, variant):
    from jsonargparse import ArgumentError

    root = _api_setup()["root"]
    cwd = {"root": root, "A": root + "/A", "B": root + "/B", "C": root + "/C", "elsewhere": root + "/elsewhere"}[cwd_choice]
    if variant.startswith("list_"):
        return _api_list_once(root, cwd, entry, variant)
    main = {"ok": "main.yaml", "ok_symlink": "main_link.yaml", "missing_top": "main_missing_top.yaml", "missing_g": "main_missing_g.yaml", "missing_h": "main_missing_h.yaml"}[variant]
    main_abs = os.path.join(root, "A", main)
    main_given = os.path.relpath(main_abs, cwd) if entry.endswith("rel") else main_abs
    parser = _api_parser()
    old = os.getcwd()
    os.chdir(cwd)
    try:
        try:
            if entry.startswith("parse_path"):
                cfg = parser.parse_path(main_given)
            else:
                cfg = parser.parse_args([f"--cfg={main_given}"])
            failed = False
        except ArgumentError:
            failed = True
        after = os.getcwd()
    finally:
        os.chdir(old)
    S.note("fails" if failed else "parses")
    if after != cwd:
        return Fail("api:cwd-not-restored", cwd=cwd, after=after, failed=failed)
    if failed != (variant not in ("ok", "ok_symlink")):
        return Fail("api:wrong-accept-reject", variant=variant, failed=failed)
    if not failed:
        want = {"top": root + "/A/a.txt", "g.p": root + "/B/data/x.txt", "g.h.q": root + "/C/y.txt"}
        for k, v in want.items():
            got = cfg[k]
            if os.path.realpath(got.absolute) != v:
                return Fail("api:relative-path-not-resolved-against-config-dir", key=k, got=got.absolute, want=v)
            rel = {"top": "a.txt", "g.p": "data/x.txt", "g.h.q": "y.txt"}[k]
            if got.relative != rel:
                return Fail("api:relative-spelling-changed", key=k, got=got.relative)
    return True


def _api_list_once(root, cwd, entry, variant):
    """--files <list file>: every entry of the list is resolved against the directory of the list file."""
    from jsonargparse import ArgumentError

    parser = _api_parser()
    if variant != "list_in_config":
        from typing import List, Optional

        from jsonargparse import ArgumentParser
        from jsonargparse.typing import Path_fr

        parser = ArgumentParser(exit_on_error=False)
        parser.add_argument("--files", type=Optional[List[Path_fr]], default=None, enable_path=True)
    old = os.getcwd()
    os.chdir(cwd)
    try:
        try:
            if variant == "list_in_config":
                main_abs = os.path.join(root, "A", "main_list.yaml")
                given = os.path.relpath(main_abs, cwd) if entry.endswith("rel") else main_abs
                cfg = parser.parse_path(given) if entry.startswith("parse_path") else parser.parse_args([f"--cfg={given}"])
            else:
                lst = os.path.join(root, "B", {"list_yaml": "list.yaml", "list_json": "list.json", "list_txt": "list.txt"}[variant])
                given = os.path.relpath(lst, cwd) if entry.endswith("rel") else lst
                cfg = parser.parse_args([f"--files={given}"]) if entry.startswith("cfg") else parser.parse_object({"files": given})
            failed = False
        except ArgumentError as ex:
            failed = True
            msg = str(ex)[:200]
        after = os.getcwd()
    finally:
        os.chdir(old)
    S.note("fails" if failed else "parses")
    if after != cwd:
        return Fail("api:cwd-not-restored", cwd=cwd, after=after)
    if failed:
        if variant == "list_txt" and entry.endswith("rel") and cwd != os.path.join(root, "B"):
            return True  # a plain-text list given by a relative path is not found from another directory today; not demanded
        return Fail("api:list-of-paths-in-a-file-rejected", variant=variant, entry=entry, msg=msg)
    want = [root + "/B/data/x.txt", root + "/C/y.txt"]
    got = [os.path.realpath(p.absolute) for p in cfg.files]
    if got != want:
        return Fail("api:relative-path-not-resolved-against-the-list-file-dir", variant=variant, got=got)
    return True


API_CWDS = ["root", "A", "B", "C", "elsewhere"]
API_ENTRIES = ["parse_path_abs", "parse_path_rel", "cfg_abs", "cfg_rel"]
API_VARIANTS = ["ok", "ok_symlink", "missing_top", "missing_g", "missing_h", "list_yaml", "list_json", "list_txt", "list_in_config"]


def api():
    _api_once("root", "parse_path_abs", "ok")

    def harness():
        c = S.pick("cwd", API_CWDS)
        e = S.pick("entry", API_ENTRIES)
        v = S.pick("variant", API_VARIANTS)
        return _api_once(c, e, v)

    return harness


def replay_api(payload):
    try:
        return native(_api_once, payload["cwd"], payload["entry"], payload["variant"])
    finally:
        import shutil

        if _API:
            shutil.rmtree(_API["root"], ignore_errors=True)


# ---- main -------------------------------------------------------------------------------------


def foreign_instances(payload):
    """A Path instance that was created (and checked) for one mode, handed to an argument of a path type with another mode, is
    accepted exactly when the same location given as text is accepted: an instance carries no proof for a mode it was not built with."""
    import shutil
    import tempfile

    from jsonargparse import ArgumentError, ArgumentParser, Path
    from jsonargparse.typing import path_type

    root = os.path.realpath(tempfile.mkdtemp(prefix="c19fi_"))
    old = os.getcwd()
    bad = []
    try:
        os.chdir(root)
        with open("file.txt", "w") as f:
            f.write("x")
        os.mkdir("dir")
        modes = ["fr", "fc", "dw", "dc", "fw", "drw"]
        for loc in ("file.txt", "dir", "missing"):
            for made_with in modes:
                try:
                    inst = Path(loc, mode=made_with)
                except TypeError:
                    continue
                for arg_mode in modes:
                    T = path_type(arg_mode)
                    p = ArgumentParser(exit_on_error=False)
                    p.add_argument("--p", type=T)
                    try:
                        p.parse_object({"p": loc})
                        want = True
                    except ArgumentError:
                        want = False
                    for given in (inst, path_type(made_with)(loc)):
                        try:
                            p.parse_object({"p": given})
                            got = True
                        except ArgumentError:
                            got = False
                        if got != want:
                            bad.append(f"{type(given).__name__}({loc!r}, mode={made_with!r}) for a Path_{arg_mode} argument: accepted={got}, the text {loc!r} accepted={want}")
    finally:
        os.chdir(old)
        shutil.rmtree(root, ignore_errors=True)
    return dict(bad=bad[:12], reproduced=bool(bad), detail=str(bad[:6]))


def main(rep, tier):
    rep.functions = FUNCTIONS
    maxflags = 2 if tier == "quick" else 4
    nshards = 16
    modes = valid_modes(maxflags)
    rep.bounds = dict(mode_flags_max=maxflags, modes=len(modes), spellings=SPELLINGS, fs_nodes=CHAIN,
                      ctx_depth=2 if tier == "quick" else 3, api_cases=len(API_CWDS) * len(API_ENTRIES) * len(API_VARIANTS))
    rep.rule = ("kernel: one path per (mode, spelling, cwd-argument, branch of Path.__init__/oracle over the symbolic kind and r/w/x bits of "
                "the path, its parent, grand-parent and cwd); ctx/api: one path per choice vector; non-trivial = assertion evaluated")
    rep.stubs = ["jsonargparse._util.os replaced by a delegating fake: access/stat/getcwd/chdir/path.isdir/isfile/exists/realpath/expanduser/abspath answer from symbolic state"]
    rep.assumptions = [
        "file-system model: a chain target/parent/grand-parent/cwd, kinds missing|file|dir (|fifo for the target), independent r/w/x bits, "
        "no symlinks (realpath = normpath), ancestors that are directories are searchable",
        "modes containing u or s (URL/fsspec) are outside the claim",
        "an existing FIFO under a mode with both f and c is excluded (documentation silent)",
        "oracle = the class docstring read flag by flag; for 'cc' the nearest existing ancestor must be a writeable directory",
        "api part: three real directories; finite choices only (cwd, entry point, which referenced file is missing)",
    ]
    jobs = [dict(module="c19", func="kernel", kwargs=dict(maxflags=maxflags, shard=s, nshards=nshards), timeout=300 if tier == "quick" else 1500) for s in range(nshards)]
    jobs.append(dict(module="c19", func="ctx", kwargs=dict(depth=2 if tier == "quick" else 3), timeout=300))
    jobs.append(dict(module="c19", func="modes", kwargs=dict(maxlen=3 if tier == "quick" else 4), timeout=600))
    jobs.append(dict(module="c19", func="copies", kwargs={}, timeout=300))
    jobs.append(dict(module="c19", func="api", kwargs={}, timeout=600))
    results = run_jobs(jobs)
    fails = absorb(rep, results, require_tags=("accept", "reject", "raises", "returns", "fails", "parses"))
    fi = run_native("props.c19", "foreign_instances", {})
    rep.evaluations += 1
    rep.extra["path_instances_of_another_mode"] = fi.get("bad") or "accepted exactly when the same location given as text is accepted (3 locations x 6 modes x 6 argument modes x 2 instance classes)"
    for b in fi.get("bad", [])[:3]:
        rep.violation(f"path instance of another mode: {b}", dict(module="props.c19", func="foreign_instances", payload={}))
    for cls, samples in fails.items():
        # one replay per (class, known-finding partition): try every sample until one is not covered
        reported = False
        for s in samples:
            v = s["values"]
            if s["harness"] == "kernel":
                kw = s["kwargs"]
                ms = valid_modes(kw["maxflags"])[kw["shard"] :: kw["nshards"]]
                mode = ms[v.get("mode", 0)] if isinstance(v.get("mode"), int) else s["info"].get("mode")
                spelling = s["info"].get("spelling") or SPELLINGS[v.get("spelling", 0)]
                mode = s["info"].get("mode", mode)
                payload = dict(mode=mode, spelling=spelling, fs=kernel_concrete_fs(v, 0, 0, 0), cwd_arg=bool(v.get("cwd_arg", False)))
                r = run_native("props.c19", "replay_kernel", payload)
                rp = dict(module="props.c19", func="replay_kernel", payload=payload)
                vals = dict(mode=mode, spelling=spelling, target_kind=KIND_NAMES[payload["fs"][CHAIN[0]]["kind"]],
                            has_F="F" in mode)
            elif s["harness"] in ("modes", "copies"):
                payload = dict(module="c19", func=s["harness"], kwargs=s["kwargs"], ordered=v.get("__order__", []))
                r = run_native("ch", "replay_path", payload)
                rp = dict(module="ch", func="replay_path", payload=payload)
                vals = dict(info=str(s["info"]))
            elif s["harness"] == "ctx":
                payload = dict(kinds=s["info"].get("kinds"), raises=s["info"].get("raises"))
                r = run_native("props.c19", "replay_ctx", payload)
                rp = dict(module="props.c19", func="replay_ctx", payload=payload)
                vals = payload
            else:
                payload = dict(cwd=API_CWDS[v.get("cwd", 0)], entry=API_ENTRIES[v.get("entry", 0)], variant=API_VARIANTS[v.get("variant", 0)])
                r = run_native("props.c19", "replay_api", payload)
                rp = dict(module="props.c19", func="replay_api", payload=payload)
                vals = payload
            if not r.get("reproduced"):
                rep.inconc(f"counterexample of class {cls} did not reproduce natively: {payload} -> {r}")
                continue
            known = rep.match_finding(cls, vals)
            if known:
                rep.known_finding(known, f"{cls} {vals}")
            elif not reported:
                rep.violation(f"{cls}: {vals} :: {r.get('detail')}", dict(rp, cls=cls, sample=s))
                reported = True
    import shutil

    if _API:
        shutil.rmtree(_API["root"], ignore_errors=True)
