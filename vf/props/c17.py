"""C17 — exactly one subcommand is selected and only its settings survive.

E-CH/api. Trees of depth 1-2 with 2-3 subcommands per level, required or optional, a global
option, a config argument, optionally a default config file. Symbolic: presence of the selector
key and which name it holds, presence of each subcommand's section at each level, the channel
(object, --cfg text, argv, environment), leaf ints. Oracle: a 20-line selection model.
"""
import json
import os
import tempfile
import warnings

from ..ch import S, Fail, absorb, run_jobs
from ..common import run_native
from ..stubs import FORMAT_STUBS_NOTE, install_format_stubs

FUNCTIONS = [
    "jsonargparse._actions._ActionSubCommands.__call__/get_subcommands/get_subcommand/handle_subcommands/add_subcommand",
    "jsonargparse._core.ArgumentParser.add_subcommands/parse_object/parse_args/parse_env/_load_env_vars (subcommand branch)/get_defaults",
]

L1 = ["A", "B", "C", "E"]  # E has no options at all: its settings are an empty namespace
L2 = ["A1", "A2"]
DEFAULTS1 = {"A": {"x": 1, "x2": 11}, "B": {"y": 2}, "C": {"z": 3}, "E": {}}  # A has a second option that is never given: it must come from the sub-parser defaults
DEFAULTS2 = {"A1": {"p": 4}, "A2": {"q": 5}}
LEAF1 = {"A": "x", "B": "y", "C": "z", "E": None}
LEAF2 = {"A1": "p", "A2": "q"}
DEFAULT_FILE_KINDS = ["none", "global-only", "section-B"]


def _use_names(kind):
    """Rename the first-level subcommands (each worker process runs one harness, so rebinding the module tables is safe).
    'clash': names that coincide with methods of the result Namespace."""
    global L1, DEFAULTS1, LEAF1
    if kind != "clash" or L1[0] != "A":
        return
    ren = {"A": "clone", "B": "update", "C": "items", "E": "get"}
    L1 = [ren[n] for n in L1]
    DEFAULTS1 = {ren[n]: v for n, v in DEFAULTS1.items()}
    LEAF1 = {ren[n]: v for n, v in LEAF1.items()}


def _tree(required, depth, default_file=None):
    from jsonargparse import ActionConfigFile, ArgumentParser

    kw = {}
    if default_file:
        kw["default_config_files"] = [default_file]
    top = ArgumentParser(exit_on_error=False, prog="app", **kw)
    top.add_argument("--cfg", action=ActionConfigFile)
    top.add_argument("--g", type=int, default=0)
    subs = {}
    for name in L1:
        p = ArgumentParser(exit_on_error=False)
        if LEAF1[name]:
            p.add_argument("--" + LEAF1[name], type=int, default=DEFAULTS1[name][LEAF1[name]])
        for extra, dflt in DEFAULTS1[name].items():
            if extra != LEAF1[name]:
                p.add_argument("--" + extra, type=int, default=dflt)
        subs[name] = p
    sc = top.add_subcommands(required=required)
    for name in L1:
        sc.add_subcommand(name, subs[name])
    if depth == 2:  # levels must be added in level order
        sc2 = subs["A"].add_subcommands(required=required, dest="sub2")
        for name in L2:
            p = ArgumentParser(exit_on_error=False)
            p.add_argument("--" + LEAF2[name], type=int, default=DEFAULTS2[name][LEAF2[name]])
            sc2.add_subcommand(name, p)
    return top


def model_select(selector, sections, names, required):
    """(choice, error) of the documented rule: named, else first (declaration order) with settings, else error if required."""
    if selector is not None:
        if selector not in names:
            return None, True
        return selector, False
    with_settings = [n for n in names if sections.get(n)]
    if with_settings:
        return with_settings[0], False
    if required:
        return None, True
    return None, False


def _expected(required, depth, g, selector, sections, given, selector2, sections2, file_kind):
    """Expected result dict (plain) or 'error'."""
    defaults_g = 0
    sec_defaults = {n: dict(DEFAULTS1[n]) for n in L1}
    file_sections = {}
    if file_kind == "global-only":
        defaults_g = 21
    elif file_kind == "section-B":
        defaults_g = 21
        sec_defaults["B"]["y"] = 22
        file_sections = {"B": {"y": 22}}
    # sections given in a default config file count as settings given
    merged_sections = {k: True for k in file_sections}
    merged_sections.update({k: True for k, v in given.items() if v})
    choice, err = model_select(selector, merged_sections, L1, required)
    if err:
        return "error"
    out = {"g": g if g is not None else defaults_g, "subcommand": choice}
    if choice is None:
        return out
    sec = dict(sec_defaults[choice])
    sec.update(sections.get(choice) or {})
    out[choice] = sec
    if depth == 2 and choice == "A":
        choice2, err2 = model_select(selector2, {k: v for k, v in sections2.items() if v}, L2, required)
        if err2:
            return "error"
        sec["sub2"] = choice2
        if choice2 is not None:
            s2 = dict(DEFAULTS2[choice2])
            s2.update(sections2.get(choice2) or {})
            sec[choice2] = s2
    return out


def _plain(ns):
    from jsonargparse import Namespace

    from jsonargparse._namespace import del_clash_mark

    out = {}
    for k, v in vars(ns).items():
        k = del_clash_mark(k)
        if k in ("cfg", "__default_config__", "__path__"):
            continue
        out[k] = _plain(v) if isinstance(v, Namespace) else v
    return out


def _once(required, depth, channel, g, selector, sections, selector2, sections2, file_kind, tmpdir):
    from jsonargparse import ArgumentError

    default_file = None
    if file_kind != "none":
        default_file = os.path.join(tmpdir, f"defaults_{file_kind}.yaml")
        if not os.path.exists(default_file):
            with open(default_file, "w") as f:
                f.write("g: 21\n" + ("B:\n  y: 22\n" if file_kind == "section-B" else ""))
    parser = _tree(required, depth, default_file)
    obj = {}
    if g is not None:
        obj["g"] = g
    if selector is not None:
        obj["subcommand"] = selector
    for n, sec in sections.items():
        if sec:
            obj[n] = dict(sec)
    if depth == 2:
        a = obj.get("A")
        if selector2 is not None or any(sections2.values()):
            a = obj.setdefault("A", {})
            if selector2 is not None:
                a["sub2"] = selector2
            for n, sec in sections2.items():
                if sec:
                    a[n] = dict(sec)
    given = {n: bool(obj.get(n)) for n in L1}  # a section counts as given if it holds anything (also level-2 keys)
    exp = _expected(required, depth, g, selector, sections, given, selector2, sections2, file_kind)
    if channel.endswith("-nodefaults"):
        return _once_nodefaults(parser, channel, obj, exp, required, depth, file_kind)
    try:
        with warnings.catch_warnings():
            warnings.simplefilter("ignore")
            if channel == "object":
                cfg = parser.parse_object(obj)
            elif channel == "cfg_text":
                cfg = parser.parse_args(["--cfg", json.dumps(obj)])
            elif channel == "parse_string":
                cfg = parser.parse_string(json.dumps(obj))
            else:
                raise RuntimeError(channel)
        got = _plain(cfg)
    except ArgumentError as ex:
        got = "error"
        msg = str(ex)[:160]
    S.note("error" if exp == "error" else ("chosen" if exp.get("subcommand") else "none-chosen"))
    if (got == "error") != (exp == "error"):
        return Fail("subcommand:wrong-accept-reject", required=required, depth=depth, channel=channel, file_kind=file_kind, expected=_shape(exp), got=_shape(got),
                    msg=msg if got == "error" else "")
    if got != "error" and not _deq(got, exp):
        return Fail("subcommand:wrong-result", required=required, depth=depth, channel=channel, file_kind=file_kind, expected=_shape(exp), got=_shape(got))
    return True


def _once_nodefaults(parser, channel, obj, exp, required, depth, file_kind):
    """defaults=False: nothing is filled in, so only what the statement says about selection is demanded of an accepted
    parse: the selected subcommand is the model's, *only its* section is present, and the given leaves of that section survive."""
    from jsonargparse import ArgumentError

    try:
        with warnings.catch_warnings():
            warnings.simplefilter("ignore")
            if channel == "object-nodefaults":
                cfg = parser.parse_object(obj, defaults=False)
            else:
                cfg = parser.parse_string(json.dumps(obj), defaults=False)
        got = _plain(cfg)
    except ArgumentError:
        S.note("error")
        if exp != "error" and exp.get("subcommand") and "subcommand" in obj:
            return Fail("subcommand:wrong-accept-reject", required=required, depth=depth, channel=channel, file_kind=file_kind, expected=_shape(exp), got="error")
        return True  # without defaults a parse may lack required values; not the subject here
    if exp == "error":
        # the model's errors are an unknown name or nothing selectable although required
        S.note("error")
        if obj.get("subcommand") == "nope":
            return Fail("subcommand:wrong-accept-reject", required=required, depth=depth, channel=channel, file_kind=file_kind, expected="error", got=_shape(got))
        return True
    S.note("chosen" if exp.get("subcommand") else "none-chosen")
    choice = exp.get("subcommand")
    if choice is None:
        return True
    if got.get("subcommand") != choice:
        return Fail("subcommand:wrong-result", required=required, depth=depth, channel=channel, file_kind=file_kind, expected=_shape(exp), got=_shape(got), what="selected subcommand")
    others = [n for n in L1 if n != choice and n in got]
    if others:
        return Fail("subcommand:section-of-an-unselected-subcommand-survives", required=required, depth=depth, channel=channel, others=others, got=_shape(got))
    for k, v in (obj.get(choice) or {}).items():
        if not isinstance(v, dict) and not (isinstance(got.get(choice), dict) and _deq(got[choice].get(k), v)):
            return Fail("subcommand:wrong-result", required=required, depth=depth, channel=channel, file_kind=file_kind, expected=_shape(exp), got=_shape(got), what="given leaf of the selected section")
    return True


def _shape(x):
    """Keys and concrete leaves only (formatting a symbolic int would realise it)."""
    if isinstance(x, dict):
        return {k: _shape(v) for k, v in x.items()}
    if isinstance(x, (str, type(None))):
        return x
    return "<int>"


def _deq(a, b):
    if isinstance(a, dict) and isinstance(b, dict):
        return sorted(a.keys()) == sorted(b.keys()) and all(_deq(a[k], b[k]) for k in a)
    if type(a) is not type(b) and not (isinstance(a, int) and isinstance(b, int)):
        return False
    return a == b


def selection(required, depth, channel, file_kind="none", shard=None, nshards=1, names="plain"):
    _use_names(names)
    return _selection(required, depth, channel, file_kind, shard, nshards)


def _selection(required, depth, channel, file_kind="none", shard=None, nshards=1):
    install_format_stubs()
    tmpdir = tempfile.mkdtemp(prefix="c17_")
    _once(required, depth, "object", None, "B", {}, None, {}, file_kind, tmpdir)
    symbolic = channel == "object"

    def val(name):
        return S.int(name) if symbolic else S.pick(name, [7, 8])

    def harness():
        g = val("g") if S.flag("g.given") else None
        sel_kind = S.choice("selector", len(L1) + 2)  # absent, A, B, C, unknown
        selector = None if sel_kind == 0 else (L1 + ["nope"])[sel_kind - 1]
        sections = {n: ({LEAF1[n]: val(n + "." + LEAF1[n])} if (LEAF1[n] and S.flag(n + ".section")) else None) for n in L1}
        selector2, sections2 = None, {n: None for n in L2}
        if depth == 2:
            k2 = S.choice("selector2", len(L2) + 1)
            selector2 = None if k2 == 0 else L2[k2 - 1]
            sections2 = {n: ({LEAF2[n]: val(n + "." + LEAF2[n])} if S.flag(n + ".section") else None) for n in L2}
        if shard is not None and S.shard(nshards) != shard:
            return None
        if symbolic or S.replaying is not None:
            return _once(required, depth, channel, g, selector, sections, selector2, sections2, file_kind, tmpdir)
        from crosshair.tracers import NoTracing

        with NoTracing():  # text channels carry concrete values only
            return _once(required, depth, channel, g, selector, sections, selector2, sections2, file_kind, tmpdir)

    return harness


def argv_env(required):
    """Selection by the command line and by the environment (concrete values; the solver picks the combination)."""
    from jsonargparse import ArgumentError

    def run(named, cfg_named, env_named, cfg_section, argv_leaf=True):
        parser = _tree(required, 1)
        argv = []
        obj = {}
        if cfg_named:
            obj["subcommand"] = cfg_named
        if cfg_section and LEAF1[cfg_section]:
            obj[cfg_section] = {LEAF1[cfg_section]: 9}
        else:
            cfg_section = None
        if obj:
            argv += ["--cfg", json.dumps(obj)]
        if named:
            argv += [named] + ([f"--{LEAF1[named]}=6"] if (LEAF1[named] and argv_leaf) else [])
        env = {}
        if env_named:
            env["APP_SUBCOMMAND"] = env_named
        # model: command line, else config / environment (environment is read first, config on argv overrides), else first with settings
        selector = named or cfg_named or env_named
        choice, err = model_select(selector, {cfg_section: True} if cfg_section else {}, L1, required)
        saved = dict(os.environ)
        os.environ.update(env)
        try:
            with warnings.catch_warnings():
                warnings.simplefilter("ignore")
                cfg = parser.parse_args(argv, env=True)
            got = _plain(cfg)
        except ArgumentError:
            got = "error"
        finally:
            os.environ.clear()
            os.environ.update(saved)
        S.note("error" if err else ("chosen" if choice else "none-chosen"))
        if (got == "error") != err:
            return Fail("subcommand:argv-env-wrong-accept-reject", named=named, cfg_named=cfg_named, env_named=env_named, cfg_section=cfg_section, got=str(got)[:200])
        if not err:
            if got.get("subcommand") != choice:
                return Fail("subcommand:argv-env-wrong-choice", named=named, cfg_named=cfg_named, env_named=env_named, cfg_section=cfg_section, got=str(got)[:200], want=choice)
            others = [n for n in L1 if n != choice and n in got]
            if others:
                return Fail("subcommand:section-of-unselected-subcommand-survives", others=others, got=str(got)[:200])
            if choice:
                exp_sec = dict(DEFAULTS1[choice])
                if cfg_section == choice:
                    exp_sec[LEAF1[choice]] = 9
                if named == choice and LEAF1[choice] and argv_leaf:
                    exp_sec[LEAF1[choice]] = 6
                if got.get(choice) != exp_sec:
                    return Fail("subcommand:argv-env-wrong-settings", choice=choice, got=str(got.get(choice)), want=str(exp_sec), named=named, cfg_named=cfg_named, cfg_section=cfg_section, env_named=env_named)
        return True

    run("A", None, None, None)

    def harness():
        opts = [None] + L1
        named = S.pick("argv", opts)
        cfg_named = S.pick("cfg.subcommand", opts)
        env_named = S.pick("env.subcommand", opts)
        cfg_section = S.pick("cfg.section", opts)
        argv_leaf = S.flag("argv.leaf") if named else True  # whether the command line also gives the subcommand's option
        if S.replaying is not None:
            return run(named, cfg_named, env_named, cfg_section, argv_leaf)
        from crosshair.tracers import NoTracing

        with NoTracing():
            return run(named, cfg_named, env_named, cfg_section, argv_leaf)

    return harness


def env_depth2():
    """The complete settings of a chosen subcommand include its environment at every level, however default_env was switched on."""
    from jsonargparse import ArgumentError

    def run(set_after, named2, env_l1, env_l2, env_sel2):
        parser = _tree(True, 2)
        if set_after:
            parser.default_env = True
        else:
            parser = _tree(True, 2)
            parser.default_env = True  # same tree; the constructor form is exercised through env=True below
        env = {}
        if env_l1:
            env["APP_A__X"] = "31"
        if env_l2:
            env["APP_A__A1__P"] = "41"
        if env_sel2:
            env["APP_A__SUB2"] = "A1"
        argv = ["A"] + (["A1"] if named2 else [])
        selected2 = "A1" if (named2 or env_sel2) else None
        saved = dict(os.environ)
        os.environ.update(env)
        try:
            with warnings.catch_warnings():
                warnings.simplefilter("ignore")
                cfg = parser.parse_args(argv) if set_after else parser.parse_args(argv, env=True)
            got = _plain(cfg)
        except ArgumentError as ex:
            got = "error"
        finally:
            os.environ.clear()
            os.environ.update(saved)
        S.note("error" if selected2 is None else "chosen")
        if selected2 is None:
            if got != "error":
                return Fail("subcommand:level2-required-but-accepted", got=_shape(got))
            return True
        if got == "error":
            return Fail("subcommand:level2-selection-failed", set_after=set_after, named2=named2, env_sel2=env_sel2)
        exp = {"g": 0, "subcommand": "A", "A": {"x": 31 if env_l1 else 1, "x2": 11, "sub2": "A1", "A1": {"p": 41 if env_l2 else 4}}}
        if not _deq(got, exp):
            return Fail("subcommand:environment-of-a-nested-subcommand-lost", set_after=set_after, named2=named2, env_l1=env_l1, env_l2=env_l2, got=str(got)[:200])
        return True

    run(True, True, False, False, False)

    def harness():
        args = (S.flag("default_env_assigned_after_build"), S.flag("level2_named_on_argv"), S.flag("env_level1_option"), S.flag("env_level2_option"), S.flag("env_level2_selector"))
        if S.replaying is not None:
            return run(*args)
        from crosshair.tracers import NoTracing

        with NoTracing():
            return run(*args)

    return harness


def main(rep, tier):
    rep.functions = FUNCTIONS
    rep.stubs = [FORMAT_STUBS_NOTE]
    rep.rule = ("one path per (selector presence/name, section presence per subcommand and level, global given) x branch of the real code on the symbolic leaf ints; "
                "non-trivial = the parse outcome was compared with the selection model")
    rep.bounds = dict(depth=[1, 2], subcommands_per_level=[3, 2], required=[True, False], channels=["object", "cfg_text", "parse_string", "argv+env", "object-nodefaults", "parse_string-nodefaults"], default_config_file=DEFAULT_FILE_KINDS)
    rep.assumptions = [
        "selection model: named on the command line, else named in config/environment, else the first subcommand in declaration order for which settings were given, "
        "else an error if required, else no subcommand (dest None)",
        "an empty section is not 'settings given'; sections are either absent or hold one leaf",
        "settings in a default config file count as given settings; a default config file that sets only global options does not choose a subcommand",
        "defaults=False (channels *-nodefaults): only selection, absence of every other section and survival of the given leaves are demanded of an accepted parse",
        "depth 3 and default config files inside sub-parsers are outside",
    ]
    jobs = []
    for required in (True, False):
        jobs.append(dict(module="c17", func="selection", kwargs=dict(required=required, depth=1, channel="object"), timeout=600))
        for sh in range(6):
            jobs.append(dict(module="c17", func="selection", kwargs=dict(required=required, depth=2, channel="object", shard=sh, nshards=6), timeout=600))
        jobs.append(dict(module="c17", func="selection", kwargs=dict(required=required, depth=1, channel="cfg_text"), timeout=600))
        jobs.append(dict(module="c17", func="selection", kwargs=dict(required=required, depth=1, channel="parse_string"), timeout=600))
        jobs.append(dict(module="c17", func="selection", kwargs=dict(required=required, depth=1, channel="object-nodefaults"), timeout=600))
        jobs.append(dict(module="c17", func="selection", kwargs=dict(required=required, depth=1, channel="parse_string-nodefaults"), timeout=600))
        for fk in DEFAULT_FILE_KINDS[1:]:
            jobs.append(dict(module="c17", func="selection", kwargs=dict(required=required, depth=1, channel="object", file_kind=fk), timeout=600))
        jobs.append(dict(module="c17", func="argv_env", kwargs=dict(required=required), timeout=600))
        for ch_ in ("object", "cfg_text", "parse_string-nodefaults"):  # subcommands named like methods of the result Namespace
            jobs.append(dict(module="c17", func="selection", kwargs=dict(required=required, depth=1, channel=ch_, names="clash"), timeout=600))
        if required:
            jobs.append(dict(module="c17", func="env_depth2", kwargs={}, timeout=600))
        if tier == "thorough":
            jobs.append(dict(module="c17", func="selection", kwargs=dict(required=required, depth=2, channel="cfg_text"), timeout=1800))
    results = run_jobs(jobs)
    fails = absorb(rep, results, require_tags=("chosen", "error"))
    groups = {}
    for cls, samples in fails.items():
        for smp in samples:
            groups.setdefault((cls, smp["harness"], json.dumps(smp["kwargs"], sort_keys=True)), []).append(smp)
    for (cls, hname, kws), samples in groups.items():
        reported = False
        for smp in samples[:5]:
            payload = dict(module="c17", func=hname, kwargs=smp["kwargs"], ordered=smp["values"].get("__order__", []))
            r = run_native("ch", "replay_path", payload)
            vals = dict(harness=hname, info=json.dumps(smp["info"], default=repr), **{k: v for k, v in smp["kwargs"].items()})
            if not r.get("reproduced"):
                rep.inconc(f"counterexample {cls} ({hname} {kws}) did not reproduce natively: {smp['info']} -> {r}")
                continue
            known = rep.match_finding(cls, vals)
            if known:
                rep.known_finding(known, f"{cls} {kws}")
            elif not reported:
                rep.violation(f"{cls} ({hname} {kws}): {smp['info']} :: {r.get('detail')}", dict(module="ch", func="replay_path", payload=payload, cls=cls))
                reported = True
