"""C06 — unknown keys are never silently ignored; required keys are enforced.

E-CH/api. One parser with required members at every kind of nesting level (top level, group,
dataclass field, init_args of a class argument, items of a list of dataclasses, subcommand
section). The solver picks the tree position at which a foreign key is inserted (and its value
kind) or a required key is removed / nulled, and the channel; the error must name the key.
"""
import copy
import json

from ..ch import S, Fail, absorb, run_jobs
from ..common import run_native

FUNCTIONS = [
    "jsonargparse._core.ArgumentParser.validate (check_values, check_required)/parse_object/parse_string/parse_args/parse_env/parse_known_args",
    "jsonargparse._typehints.adapt_class_type / dataclass branch (per-class parsers), ActionTypeHint.get_class_parser",
    "jsonargparse._actions._ActionSubCommands.get_subcommands (required subcommand)",
]

FOREIGN_POSITIONS = ["", "g", "dc", "m", "m.init_args", "ld.0", "fit", "od", "dd.k", "nd"]
# the foreign key is either unrelated ('zz') or a truncated sibling name (a proper string prefix of a key defined at that position)
FOREIGN_NAMES = {"": ["zz", "num", "zz+", "a+"], "g": ["zz", "cou", "zz+", "c+"], "m.init_args": ["zz", "hidden", "zz+"], "fit": ["zz", "max", "zz+", "y+"], "nd": ["zz", "size", "zz+"],
                 "dc": ["zz", "zz+"], "ld.0": ["zz", "zz+"], "od": ["zz", "zz+"], "dd.k": ["zz", "zz+"], "m": ["zz", "zz+"]}
# ('+' is the list-append suffix: on an unknown key, or on a key that is not list-typed, it is as foreign as any other key)
FOREIGN_KINDS = ["int", "none", "dict", "str", "empty-dict", "nested-empty-dict"]
REQUIRED_KEYS = ["a", "g.b", "dc.a", "m.init_args.w", "ld.0.a", "fit.x", "subcommand+fit", "m", "od.a", "dd.k.a", "opt.init_args.schedule.lr"]
REMOVAL_KINDS = ["removed", "none"]
CHANNELS = ["object", "parse_string", "cfg_text", "argv", "env", "validate"]


def _parser():
    from typing import Dict, List, Optional

    from jsonargparse import ActionConfigFile, ArgumentParser

    from ..fixtures import Base, Req

    p = ArgumentParser(exit_on_error=False, prog="app")
    p.add_argument("--cfg", action=ActionConfigFile)
    p.add_argument("--a", type=int, required=True)
    p.add_argument("--num_workers", type=int, default=0)
    p.add_argument("--g.b", type=int, required=True)
    p.add_argument("--g.c", type=int, default=1)
    p.add_argument("--g.count", type=int, default=1)
    from ..fixtures import Named

    p.add_argument("--nd", type=Named, default=Named())
    p.add_argument("--dc", type=Req)
    p.add_argument("--m", type=Base, required=True)
    p.add_argument("--ld", type=List[Req], default=[])
    p.add_argument("--od", type=Optional[Req], default=None)
    p.add_argument("--dd", type=Dict[str, Req], default={})
    from ..fixtures import BaseOpt

    p.add_argument("--base_lr", type=float, default=0.1)
    p.add_argument("--opt", type=BaseOpt, default=None)
    p.link_arguments("base_lr", "opt.init_args.lr")  # the target's leaf name equals a required field of opt's dataclass parameter
    fit = ArgumentParser(exit_on_error=False)
    fit.add_argument("--x", type=int, required=True)
    fit.add_argument("--y", type=int, default=1)
    fit.add_argument("--max_epochs", type=int, default=1)
    test = ArgumentParser(exit_on_error=False)
    test.add_argument("--z", type=int, default=1)
    sc = p.add_subcommands(required=True)
    sc.add_subcommand("fit", fit)
    sc.add_subcommand("test", test)
    return p


def _valid():
    # (sections keep a second key so that removing the required one does not leave an empty mapping, which Optional[...] reads as None)
    return {"a": 1, "g": {"b": 2, "c": 9}, "dc": {"a": 3, "b": 1.5}, "m": {"class_path": "vf.fixtures.NeedsW", "init_args": {"w": 4, "t": 1.5}}, "ld": [{"a": 5, "b": 1.5}],
            "od": {"a": 7, "b": 1.5}, "dd": {"k": {"a": 8, "b": 1.5}}, "subcommand": "fit", "fit": {"x": 6, "y": 2}, "nd": {"size_total": 2, "label": "m"},
            "opt": {"class_path": "vf.fixtures.Opt", "init_args": {"schedule": {"lr": 0.5, "steps": 3}, "momentum": 0.9}}}


def _node(obj, path):
    node = obj
    for p in [x for x in path.split(".") if x != ""]:
        node = node[int(p)] if isinstance(node, list) else node[p]
    return node


def _call(channel, obj, defaults=True):
    """Feed obj through a channel. Returns ('ok', cfg) | ('error', message)."""
    import os

    from jsonargparse import ArgumentError

    p = _parser()
    try:
        if channel == "object":
            return "ok", p.parse_object(copy.deepcopy(obj), defaults=defaults)
        if channel == "validate":
            # a configuration object tampered with after parsing, handed to validate()
            from jsonargparse import Namespace, dict_to_namespace

            def to_ns(o):
                if isinstance(o, dict) and "class_path" not in o:
                    return Namespace(**{k: (to_ns(v) if isinstance(v, dict) and k in ("g", "fit", "test", "dc", "nd") else v) for k, v in o.items()})
                return o

            cfg = p.parse_object(_valid())
            tampered = to_ns(copy.deepcopy(obj))
            for k in list(vars(cfg)):
                if k not in vars(tampered):
                    del cfg[k]
            for k, v in vars(tampered).items():
                if k in ("g", "fit", "dc", "nd") and isinstance(v, Namespace):
                    for kk in list(vars(cfg[k])):
                        if kk not in vars(v):
                            del cfg[k][kk]
                    for kk, vv in vars(v).items():
                        cfg[k][kk] = vv
                elif k in ("a", "subcommand") or k not in vars(cfg):
                    cfg[k] = v
            try:
                p.validate(cfg)
            except (TypeError, KeyError) as ex:
                return "error", str(ex)
            return "ok", cfg
        if channel == "parse_string":
            return "ok", p.parse_string(json.dumps(obj), defaults=defaults)
        if channel == "cfg_text":
            return "ok", p.parse_args(["--cfg", json.dumps(obj)], defaults=defaults)
        if channel == "argv":
            argv = []
            sub = obj.get("subcommand")
            for k, v in obj.items():
                if k in ("subcommand", "fit", "test"):
                    continue
                if k == "g" and isinstance(v, dict):
                    argv += [f"--g.{kk}={json.dumps(vv)}" for kk, vv in v.items()]
                else:
                    argv.append(f"--{k}={json.dumps(v)}")
            if sub:
                argv.append(sub)
                argv += [f"--{kk}={json.dumps(vv)}" for kk, vv in (obj.get(sub) or {}).items()]
            return "ok", p.parse_args(argv, defaults=defaults)
        if channel == "env":
            env = {}
            for k, v in obj.items():
                if k == "subcommand":
                    env["APP_SUBCOMMAND"] = v
                elif k in ("fit", "test"):
                    env.update({f"APP_{k.upper()}__{kk.upper()}": json.dumps(vv) for kk, vv in v.items()})
                elif k == "g" and isinstance(v, dict):
                    env.update({f"APP_G__{kk.upper()}": json.dumps(vv) for kk, vv in v.items()})
                else:
                    env["APP_" + k.upper()] = json.dumps(v)
            return "ok", p.parse_env(env, defaults=defaults)
        raise RuntimeError(channel)
    except ArgumentError as ex:
        return "error", str(ex)


def _foreign_once(pos, kind, channel, name="zz"):
    obj = _valid()
    node = _node(obj, pos)
    node[name] = {"int": 5, "none": None, "dict": {"q": 1}, "str": "v", "empty-dict": {}, "nested-empty-dict": {"q": {}}}[kind]
    if channel in ("argv", "env") and pos == "":
        # a foreign top-level key is an unknown option / an environment variable nobody reads: argv must reject, env has nothing to reject
        if channel == "env":
            return None
    if channel == "env" and pos in ("g", "fit"):
        return None  # environment variables that no argument reads are not an input of the parser
    if channel in ("argv", "env") and name.endswith("+") and name != "zz+":
        return None  # '--a+=5' / APP_A+ : the append form of a real option is a different question (C04)
    if channel == "argv" and name not in ("zz", "zz+") and pos in ("", "g", "fit"):
        return None  # on the command line a unique prefix of an option name is argparse's documented abbreviation of that option
    if channel == "validate" and pos not in ("", "g", "fit", "dc", "nd"):
        return None  # (validate channel: only the namespace levels are tampered with)
    status, res = _call(channel, obj)
    S.note("foreign")
    if status == "ok":
        return Fail("foreign-key:accepted", position=pos, value_kind=kind, channel=channel, name=name)
    if name.rstrip("+") not in res:
        return Fail("foreign-key:error-does-not-name-the-key", position=pos, value_kind=kind, channel=channel, name=name, message=res[:300])
    return True


def _required_once(key, how, channel, defaults=True):
    obj = _valid()
    if how in ("section-removed", "section-emptied"):
        # the required key was the only thing in the section of the selected subcommand: the section is absent or empty
        if key != "fit.x" or channel == "validate":
            return None
        if how == "section-removed" or channel in ("argv", "env"):
            del obj["fit"]
        else:
            obj["fit"] = {}
    elif key == "subcommand+fit":
        del obj["subcommand"]
        del obj["fit"]
        if how == "none":
            obj["subcommand"] = None
    else:
        parent, _, leaf = key.rpartition(".")
        node = _node(obj, parent)
        if how == "removed":
            del node[leaf]
        else:
            node[leaf] = None
    if how == "none" and channel in ("argv", "env"):
        return None  # 'null' on the command line / in the environment is a value, not an omission
    if channel == "validate" and key not in ("a", "g.b", "dc.a", "fit.x", "subcommand+fit"):
        return None
    if not defaults and channel == "validate":
        return None
    status, res = _call(channel, obj, defaults)
    S.note("required")
    if status == "ok":
        return Fail("required-key:missing-but-accepted", key=key, how=how, channel=channel)
    return True


def tamper():
    from jsonargparse import ArgumentParser

    for ch_ in CHANNELS:
        st, res = _call(ch_, _valid())
        if st != "ok":
            raise RuntimeError(f"the untouched configuration does not parse through {ch_}: {res[:300]}")

    def harness():
        channel = S.pick("channel", CHANNELS)
        if S.flag("foreign"):
            pos = S.pick("position", FOREIGN_POSITIONS)
            kind = S.pick("value_kind", FOREIGN_KINDS)
            name = S.pick("foreign_name", FOREIGN_NAMES.get(pos, ["zz"]))
            args = ("f", pos, kind, channel, name)
        else:
            key = S.pick("required_key", REQUIRED_KEYS)
            how = S.pick("how", REMOVAL_KINDS + ["section-removed", "section-emptied"])
            args = ("r", key, how, channel, S.flag("defaults"))
        fn = _foreign_once if args[0] == "f" else _required_once
        if S.replaying is not None:
            return fn(*args[1:])
        from crosshair.tracers import NoTracing

        with NoTracing():
            return fn(*args[1:])

    return harness


def baseline():
    """The untouched configuration parses, with symbolic leaf ints (object channel); parse_known_args refuses outside callers."""
    from jsonargparse import ArgumentError

    parser = _parser()
    parser.parse_object(_valid())

    def harness():
        obj = _valid()
        obj["a"] = S.int("a")
        obj["g"]["b"] = S.int("g.b")
        obj["dc"]["a"] = S.int("dc.a")
        obj["m"]["init_args"]["w"] = S.int("m.w")
        obj["ld"][0]["a"] = S.int("ld0.a")
        obj["fit"]["x"] = S.int("fit.x")
        try:
            cfg = parser.parse_object(obj)
        except ArgumentError as ex:
            return Fail("baseline:valid-configuration-rejected", msg=str(ex)[:200])
        S.note("foreign")
        S.note("required")
        if cfg.a != obj["a"] or cfg.fit.x != obj["fit"]["x"] or cfg.m.init_args.w != obj["m"]["init_args"]["w"]:
            return Fail("baseline:values-changed")
        try:
            parser.parse_known_args(["--a=1"])
            return Fail("parse_known_args:usable-from-outside")
        except NotImplementedError:
            pass
        return True

    return harness


def main(rep, tier):
    rep.functions = FUNCTIONS
    rep.rule = ("one path per (foreign-key position x value kind | required key x removed/nulled) x channel; non-trivial = the tampered configuration was parsed and "
                "the outcome (and the error text) checked")
    rep.bounds = dict(foreign_positions=FOREIGN_POSITIONS, foreign_value_kinds=FOREIGN_KINDS, required_keys=REQUIRED_KEYS, removal=REMOVAL_KINDS, channels=CHANNELS)
    rep.assumptions = [
        "one parser with required members at six kinds of nesting level; the solver's share is the position, the value kind and the channel (leaf values are concrete; "
        "symbolic ints only in the baseline harness) - real message formatting is kept because the error text is part of the assertion",
        "environment variables that no argument reads are not an input of the parser; 'null' on argv / in the environment is a value, not an omission",
        "the error must contain the foreign key's name (per-class parsers report keys relative to themselves)",
    ]
    results = run_jobs([dict(module="c06", func="tamper", kwargs={}, timeout=900), dict(module="c06", func="baseline", kwargs={}, timeout=300)])
    fails = absorb(rep, results, require_tags=("foreign", "required"))
    groups = {}
    for cls, samples in fails.items():
        for smp in samples:
            i = smp["info"]
            groups.setdefault((cls, i.get("position", i.get("key", "")), i.get("channel", ""), i.get("how", i.get("value_kind", "")) + i.get("name", "")), []).append(smp)
    for (cls, where, channel, how), samples in groups.items():
        smp = samples[0]
        payload = dict(module="c06", func=smp["harness"], kwargs=smp["kwargs"], ordered=smp["values"].get("__order__", []))
        r = run_native("ch", "replay_path", payload)
        vals = dict(where=where, channel=channel, how=how, info=json.dumps(smp["info"], default=repr))
        if not r.get("reproduced"):
            rep.inconc(f"counterexample {cls} ({where}, {channel}, {how}) did not reproduce natively: {smp['info']} -> {r}")
            continue
        known = rep.match_finding(cls, vals)
        if known:
            rep.known_finding(known, f"{cls} {where} {channel} {how}")
        else:
            rep.violation(f"{cls} at {where!r} through {channel} ({how}): {smp['info']} :: {r.get('detail')}", dict(module="ch", func="replay_path", payload=payload, cls=cls))
