"""C02 — accepted values conform to the declared type; acceptance is compositional.

E-CH/api. One real parser per type hint (built by add_argument). Values come from a bounded
shape family whose *shape* is chosen by solver integers and whose numeric leaves are symbolic.
Three independent assertions: conformance of accepted results, right shape never rejected,
and relational compositionality (container <-> elements, Union <-> OR of members, every
permutation of the members) where the element verdicts come from the real code itself.
"""
import copy
import itertools
import json

from ..ch import S, Fail, absorb, run_jobs, untraced
from ..common import run_native
from ..stubs import FORMAT_STUBS_NOTE, install_format_stubs

FUNCTIONS = [
    "jsonargparse._typehints.adapt_typehints (Literal, leaf, registered, Enum, Union, Tuple/Set, List, Dict branches), sort_subtypes_for_union",
    "jsonargparse._typehints.ActionTypeHint._check_type/__call__; jsonargparse._core.ArgumentParser.parse_object/parse_args/_check_value_key/validate",
    "jsonargparse.typing.restricted_number_type validation (PositiveInt)",
]

STR_MENU = ["a", "1", "true", "null", "1.5", "[1]", '{"k": 1}', "", "RED"]
TEXT_MENU = ["null", "true", "1", "1.0", "[1]", '{"k": 1}', "a", "-3", "[1, true]", "RED", "0"]


def _types():
    from typing import Dict, List, Literal, Optional, Set, Tuple, Union

    from jsonargparse.typing import PositiveInt

    from ..fixtures import Color

    leaves = {"int": int, "float": float, "bool": bool, "str": str, "PositiveInt": PositiveInt, "Literal[1,'a']": Literal[1, "a"], "Color": Color}
    return leaves, dict(Dict=Dict, List=List, Optional=Optional, Set=Set, Tuple=Tuple, Union=Union)


def _resolve(spec):
    """spec: nested tuples like ('List', 'int') / ('Union', 'int', 'str') / ('Tuple', 'int', 'str') / ('TupleVar', 'int') -> typing object"""
    leaves, C = _types()
    if isinstance(spec, str):
        if spec == "None":
            return type(None)
        return leaves[spec]
    spec = tuple(spec)
    head, args = spec[0], [_resolve(a) for a in spec[1:]]
    if head == "List":
        return C["List"][args[0]]
    if head == "Dict":
        return C["Dict"][str, args[0]]
    if head == "Optional":
        return C["Optional"][args[0]]
    if head == "Set":
        return C["Set"][args[0]]
    if head == "Tuple":
        return C["Tuple"][tuple(args)]
    if head == "TupleVar":
        return C["Tuple"][args[0], ...]
    if head == "Union":
        return C["Union"][tuple(args)]
    raise ValueError(spec)


_PARSERS = {}


def _parser(spec):
    from jsonargparse import ArgumentParser

    key = json.dumps(spec)
    if key not in _PARSERS:
        p = ArgumentParser(exit_on_error=False)
        p.add_argument("--x", type=_resolve(spec), default=None)
        _PARSERS[key] = p
    return _PARSERS[key]


def allows_none(spec):
    if spec == "None":
        return True
    if isinstance(spec, str):
        return False
    spec = tuple(spec)
    if spec[0] == "Optional":
        return True
    if spec[0] == "Union":
        return any(allows_none(a) for a in spec[1:])
    return False


def accept_obj(spec, v):
    """(accepted, result) of the real code for value v under type spec, object channel."""
    from jsonargparse import ArgumentError

    if v is None:
        # a top-level None means 'not set'; whether None is a value of the type is structural
        return allows_none(spec), None
    try:
        r = _parser(spec).parse_object({"x": copy.deepcopy(v)})
        return True, r.x
    except ArgumentError:
        return False, None


def accept_text(spec, t):
    from jsonargparse import ArgumentError

    try:
        r = _parser(spec).parse_args(["--x=" + t])
        return True, r.x
    except ArgumentError:
        return False, None


def strict_conforms(v, spec):
    """Structural type predicate with no coercions."""
    from ..fixtures import Color

    if isinstance(spec, str):
        if spec == "None":
            return v is None
        if spec == "int":
            return isinstance(v, int) and not isinstance(v, bool)
        if spec == "float":
            return isinstance(v, float)
        if spec == "bool":
            return isinstance(v, bool)
        if spec == "str":
            return isinstance(v, str)
        if spec == "PositiveInt":
            return isinstance(v, int) and not isinstance(v, bool) and v > 0
        if spec == "Literal[1,'a']":
            return (isinstance(v, (int, float, str, bool))) and v in (1, "a")
        if spec == "Color":
            return isinstance(v, Color)
        raise ValueError(spec)
    spec = tuple(spec)
    head, args = spec[0], spec[1:]
    if head == "Optional":
        return v is None or strict_conforms(v, args[0])
    if head == "Union":
        return any(strict_conforms(v, a) for a in args)
    if head == "List":
        return isinstance(v, list) and all(strict_conforms(e, args[0]) for e in v)
    if head == "Dict":
        return isinstance(v, dict) and all(strict_conforms(e, args[0]) for e in v.values())
    if head == "Set":
        return isinstance(v, set) and all(strict_conforms(e, args[0]) for e in v)
    if head == "TupleVar":
        return isinstance(v, tuple) and all(strict_conforms(e, args[0]) for e in v)
    if head == "Tuple":
        return isinstance(v, tuple) and len(v) == len(args) and all(strict_conforms(e, a) for e, a in zip(v, args))
    raise ValueError(spec)


def _eq(a, b):
    if type(a) is not type(b) and not (isinstance(a, int) and isinstance(b, int) and not isinstance(a, bool) and not isinstance(b, bool)):
        return False
    if isinstance(a, (list, tuple)):
        return len(a) == len(b) and all(_eq(x, y) for x, y in zip(a, b))
    if isinstance(a, dict):
        return list(a.keys()) == list(b.keys()) and all(_eq(a[k], b[k]) for k in a)
    return a == b


SMALL_STR_MENU = ["a", "1", "null", "[1]", "", "RED"]


INT_WINDOW = [None]


def _uses_restricted(spec):
    return "PositiveInt" in json.dumps(spec)


def scalar(name, small=False):
    k = S.choice(name + ".kind", 5)
    if k == 0:
        return None
    if k == 1:
        if INT_WINDOW[0]:
            return S.int(name, *INT_WINDOW[0])  # int.__new__ of a restricted type concretises: bounded window
        return S.int(name)
    if k == 2:
        return S.bool(name)
    if k == 3:
        if INT_WINDOW[0]:
            return S.pick(name + ".float", [0.5, 2.0, -1.0])  # restricted types run float.is_integer / int(): C code
        return S.float(name)
    return S.pick(name + ".str", SMALL_STR_MENU if small else STR_MENU)


def element(name, depth, small=False):
    """A value of the bounded family: scalar, or (depth>0) a list / dict of scalars."""
    if depth <= 0:
        return scalar(name, small)
    k = S.choice(name + ".shape", 3)
    if k == 0:
        return scalar(name, small)
    if k == 1:
        n = S.choice(name + ".len", 2)
        return [inner_scalar(f"{name}[{i}]") for i in range(n)]
    return {"k": inner_scalar(name + ".k")}


def inner_scalar(name):
    k = S.choice(name + ".kind", 4)
    if k == 0:
        return None
    if k == 1:
        return S.int(name, *INT_WINDOW[0]) if INT_WINDOW[0] else S.int(name)
    if k == 2:
        return S.bool(name)
    return S.pick(name + ".str", ["a", "1"])


def has_str(v):
    if isinstance(v, str):
        return True
    if isinstance(v, (list, tuple, set)):
        return any(has_str(e) for e in v)
    if isinstance(v, dict):
        return any(has_str(e) for e in v.values())
    return False


def _check_value(spec, v, acc_res=None):
    """Assertions 1 and 2 for value v under spec (object channel)."""
    acc, res = acc_res if acc_res is not None else accept_obj(spec, v)
    S.note("accepted" if acc else "rejected")
    if acc and res is not None and not strict_conforms(res, spec):
        return Fail("conformance:accepted-result-does-not-conform", spec=spec, result_type=type(res).__name__)
    if v is not None and strict_conforms(v, spec):
        if not acc:
            return Fail("conformance:right-shape-rejected", spec=spec)
        # (a str value is text for the parser and may legitimately be read as something else, e.g. 'null' under
        # Optional[str]; equality is demanded only of values that hold no strings)
        if not has_str(v) and not _eq(res, v):
            return Fail("conformance:right-shape-changed", spec=spec)
    return None


def elem_verdict(elem, e):
    """Is e accepted *as an element* of type elem? Non-string values: the verdict of the real code on a parser of
    that type. A str given at the top level is text that the parser loads first, which does not happen to a str
    inside a container, so its verdict is taken in element position (a one-element list)."""
    if isinstance(e, str):
        return accept_obj(["List", elem], [e])[0]
    return accept_obj(elem, e)[0]


def leaf(spec):
    install_format_stubs()
    INT_WINDOW[0] = (-2, 3) if _uses_restricted(spec) else None
    _parser(spec).parse_object({"x": None})

    def harness():
        if S.flag("text_channel"):
            t = S.pick("text", TEXT_MENU)
            acc, res = accept_text(spec, t)
            S.note("accepted" if acc else "rejected")
            if acc and res is not None and not strict_conforms(res, spec):
                return Fail("conformance:accepted-text-result-does-not-conform", spec=spec, text=t)
            return True
        v = element("v", 1)
        return _check_value(spec, v) or True

    return harness


def container(head, elem, depth=0):
    """head in List, Dict, Set, TupleVar, Optional; elem: element type spec."""
    install_format_stubs()
    INT_WINDOW[0] = (-2, 3) if _uses_restricted(elem) else None
    spec = [head, elem]
    _parser(spec).parse_object({"x": None})
    _parser(elem).parse_object({"x": None})

    def harness():
        if head == "Optional":
            v = element("v", depth)
            acc, res = accept_obj(spec, v)
            acc_e, _ = accept_obj(elem, v)
            exp = v is None or acc_e
            if isinstance(v, str) and not acc_e:
                # text that the member rejects may still be the text of None ('null'): decided by the None member
                exp = accept_obj(["Optional", "bool"], v)[1] is None and accept_obj(["Optional", "bool"], v)[0]
            if acc != exp:
                return Fail("compositional:Optional", spec=spec, accepted=acc, element_accepted=acc_e)
            f = _check_value(spec, v, (acc, res))
            return f or True
        n = S.choice("n", 3)
        vs = [element(f"e{i}", depth, small=True) for i in range(n)]
        verdicts = [elem_verdict(elem, e) for e in vs]
        as_native = S.flag("native_container")
        if head == "Dict":
            cv = {("k", "j")[i]: e for i, e in enumerate(vs)}
        elif head == "Set":
            cv = vs  # a list is the serialised form of a set (hashing symbolic values would realise them)
        elif head == "TupleVar":
            cv = tuple(vs) if as_native else list(vs)
        else:
            cv = list(vs)
        acc, res = accept_obj(spec, cv)
        S.note("accepted" if acc else "rejected")
        if acc != all(verdicts):
            return Fail("compositional:container", spec=spec, accepted=acc, element_verdicts=verdicts)
        if acc and not strict_conforms(res, spec):
            return Fail("conformance:accepted-result-does-not-conform", spec=spec, result_type=type(res).__name__)
        if strict_conforms(cv, spec):
            if not acc:
                return Fail("conformance:right-shape-rejected", spec=spec)
            if not has_str(cv) and not _eq(res, cv):
                return Fail("conformance:right-shape-changed", spec=spec)
        return True

    return harness


def append(elem):
    """'--x+=TEXT' on a List[elem] option: a text the element type accepts (and that is not itself a list) is appended as that
    element; whatever is accepted conforms. Element verdicts come from the real code on the element type's own parser."""
    from jsonargparse import ArgumentError

    install_format_stubs()
    spec = ["List", elem]
    _parser(spec).parse_object({"x": None})
    _parser(elem).parse_object({"x": None})
    import yaml

    def once(t, prior):
        argv = (["--x=[]"] if prior == "empty" else ["--x=[1]"] if prior == "one" else []) + ["--x+=" + t]
        try:
            res = _parser(spec).parse_args(argv).x
            acc = True
        except ArgumentError:
            acc, res = False, None
        acc_e, res_e = accept_text(elem, t)
        try:
            loaded = yaml.safe_load(t)
        except Exception:
            loaded = t
        S.note("accepted" if acc else "rejected")
        if acc and not strict_conforms(res, spec):
            return Fail("conformance:accepted-result-does-not-conform", spec=spec, argv=argv)
        if acc_e and res_e is not None and not isinstance(loaded, list) and not isinstance(res_e, list):
            if not acc:
                return Fail("compositional:append-rejects-what-the-element-type-accepts", spec=spec, argv=argv)
        return True

    def harness():
        t = S.pick("text", TEXT_MENU + ["abc", "2.5", "x y"])
        prior = S.pick("prior", ["none", "empty", "one"])
        if prior == "one" and elem in ("bool", "str"):
            return None
        if S.replaying is not None:
            return once(t, prior)
        from crosshair.tracers import NoTracing

        with NoTracing():
            return once(t, prior)

    return harness


def dict_items(keytype, elem):
    """Item options '--x.KEY=TEXT' on Dict[keytype, elem], alone and after an earlier value: every key of an accepted result has the
    declared key type, earlier items survive, an item given again is replaced; mappings that mix key types are judged key by key."""
    from typing import Dict

    from jsonargparse import ArgumentError, ArgumentParser

    KT = {"int": int, "str": str}[keytype]
    ET = {"int": int, "str": str}[elem]
    p = ArgumentParser(exit_on_error=False)
    p.add_argument("--x", type=Dict[KT, ET], default=None)
    texts = {"int": ["5", "abc", "true"], "str": ["abc", "5"]}[elem]
    good = {"int": "7", "str": "w"}[elem]

    def conforms(d):
        return isinstance(d, dict) and all(type(k) is KT for k in d) and all(type(v) is ET for v in d.values())

    def once(prior, key, text, via_object):
        argv = []
        if prior == "json":
            argv.append('--x={"1": %s}' % json.dumps(ET(7) if ET is int else "w"))
        elif prior == "item":
            argv.append("--x.1=" + good)
        argv.append(f"--x.{key}={text}")
        try:
            res = p.parse_args(argv).x
            acc = True
        except ArgumentError:
            acc, res = False, None
        S.note("accepted" if acc else "rejected")
        key_ok = KT is str or key.lstrip("-").isdigit()
        val_ok = accept_text(elem, text)[0]
        if acc != (key_ok and val_ok):
            return Fail("compositional:dict-item-option", argv=argv, accepted=acc, key_ok=key_ok, value_ok=val_ok)
        if acc:
            if not conforms(res):
                return Fail("conformance:accepted-result-does-not-conform", argv=argv, keys=[type(k).__name__ for k in res])
            want_keys = ({KT("1")} if prior != "none" else set()) | {KT(key)}
            if set(res) != want_keys:
                return Fail("compositional:dict-item-option-keys", argv=argv, keys=sorted(map(repr, res)), want=sorted(map(repr, want_keys)))
        if via_object and KT is int:
            # one mapping that mixes key types: accepted iff every key is an int or the text of one
            for obj, ok in (({1: ET(7) if ET is int else "w", "2": ET(8) if ET is int else "v"}, True), ({1: ET(7) if ET is int else "w", "x": ET(8) if ET is int else "v"}, False)):
                try:
                    r2 = p.parse_object({"x": dict(obj)}).x
                    a2 = True
                except ArgumentError:
                    a2, r2 = False, None
                if a2 != ok:
                    return Fail("compositional:dict-mixed-keys", obj=repr(obj), accepted=a2)
                if a2 and not conforms(r2):
                    return Fail("conformance:accepted-result-does-not-conform", obj=repr(obj), keys=[type(k).__name__ for k in r2])
        return True

    once("none", "2", good, False)

    def harness():
        prior = S.pick("prior", ["none", "json", "item"])
        key = S.pick("key", ["2", "1", "k", "-3"])
        text = S.pick("text", texts)
        via_object = S.flag("mixed_object")
        with untraced():
            return once(prior, key, text, via_object)

    return harness


def fixed_tuple(elems):
    install_format_stubs()
    INT_WINDOW[0] = (-2, 3) if _uses_restricted(elems) else None
    spec = ["Tuple"] + list(elems)
    _parser(spec).parse_object({"x": None})

    def harness():
        n = S.choice("n", len(elems) + 2)
        vs = [element(f"e{i}", 0, small=True) for i in range(n)]
        cv = tuple(vs) if S.flag("native_container") else list(vs)
        acc, res = accept_obj(spec, cv)
        S.note("accepted" if acc else "rejected")
        exp = n == len(elems) and all(elem_verdict(t, e) for t, e in zip(elems, vs))
        if acc != exp:
            return Fail("compositional:fixed-tuple", spec=spec, n=n, accepted=acc)
        if acc and not strict_conforms(res, spec):
            return Fail("conformance:accepted-result-does-not-conform", spec=spec)
        return True

    return harness


def pair_value(name):
    """A two-element list (or one-item dict) of scalars: the shape on which container members of a Union disagree."""
    def sc(n):
        k = S.choice(n + ".kind", 3)
        if k == 0:
            return S.int(n, -2, 3)
        if k == 1:
            return S.pick(n + ".float", [0.5, 2.0])
        return S.pick(n + ".str", ["1", "a", "-1"])

    if S.flag(name + ".dict"):
        return {"k": sc(name + ".k"), "j": sc(name + ".j")}
    return [sc(name + "[0]"), sc(name + "[1]")]


def union(members, depth=0, pairs=False):
    install_format_stubs()
    INT_WINDOW[0] = (-2, 3) if _uses_restricted(members) else None
    perms = [list(p) for p in itertools.permutations(members)]
    for p in perms:
        _parser(["Union"] + p).parse_object({"x": None})
    for m in members:
        if m != "None":
            _parser(m).parse_object({"x": None})

    def harness():
        use_text = S.flag("text_channel")
        if use_text:
            t = S.pick("text", TEXT_MENU)
            member_verdicts = [(accept_text(m, t)[0] if m != "None" else False) for m in members]
            exp = any(member_verdicts)
            for p in perms:
                acc, res = accept_text(["Union"] + p, t)
                if "None" in members and t == "null":
                    continue  # 'null' is None for a Union with a None member: structural, not relational
                S.note("accepted" if acc else "rejected")
                if acc != exp:
                    return Fail("compositional:union-text", members=members, order=p, text=t, accepted=acc, member_verdicts=member_verdicts)
                if acc and res is not None and not strict_conforms(res, ["Union"] + p):
                    return Fail("conformance:accepted-text-result-does-not-conform", order=p, text=t, result_type=type(res).__name__)
            return True
        v = pair_value("v") if pairs else element("v", depth)

        def member_verdict(m):
            if m == "None":
                # the None member accepts None and the text of None (judged by the code on Optional[bool], not by the harness)
                if v is None:
                    return True
                if isinstance(v, str):
                    ok, res = accept_obj(["Optional", "bool"], v)
                    return ok and res is None
                return False
            return accept_obj(m, v)[0]

        member_verdicts = [member_verdict(m) for m in members]
        exp = any(member_verdicts)
        for p in perms:
            acc, res = accept_obj(["Union"] + p, v)
            S.note("accepted" if acc else "rejected")
            if acc != exp:
                return Fail("compositional:union", members=members, order=p, accepted=acc, member_verdicts=member_verdicts)
            if acc and res is not None and not strict_conforms(res, ["Union"] + p):
                return Fail("conformance:accepted-result-does-not-conform", order=p, result_type=type(res).__name__)
        return True

    return harness


LEAVES = ["int", "float", "bool", "str", "PositiveInt", "Literal[1,'a']", "Color"]


def plan(tier):
    jobs = []
    for l in LEAVES:
        jobs.append(("leaf", dict(spec=l)))
    for head in ("List", "Dict", "Set", "TupleVar", "Optional"):
        for l in (LEAVES if tier == "thorough" else ["int", "float", "bool", "str", "PositiveInt"]):
            jobs.append(("container", dict(head=head, elem=l)))
    jobs.append(("fixed_tuple", dict(elems=["int", "str"])))
    jobs.append(("fixed_tuple", dict(elems=["float", "bool"])))
    pairs = [("int", "str"), ("float", "bool"), ("int", "float"), ("bool", "int"), ("str", "None"), ("str", "float"), ("PositiveInt", "str"), ("Color", "int"), ("None", "Color")]
    if tier == "thorough":
        pairs = list(itertools.combinations(LEAVES + ["None"], 2))
    for a, b in pairs:
        jobs.append(("union", dict(members=[a, b])))
    jobs.append(("union", dict(members=["int", "str", "None"])))
    jobs.append(("union", dict(members=["bool", "float", "str"])))
    # depth 2
    jobs.append(("container", dict(head="List", elem=["Optional", "int"], depth=0)))
    jobs.append(("container", dict(head="List", elem=["List", "int"], depth=1)))
    jobs.append(("container", dict(head="Dict", elem=["List", "int"], depth=1)))
    jobs.append(("container", dict(head="Optional", elem=["List", "int"], depth=1)))
    jobs.append(("container", dict(head="List", elem=["Union", "int", "str"], depth=0)))
    jobs.append(("union", dict(members=[["List", "int"], "int"], depth=1)))
    jobs.append(("union", dict(members=["str", ["List", "int"]], depth=1)))
    jobs.append(("union", dict(members=["str", ["Dict", "int"]], depth=1)))
    for el in ("int", "str", ["Union", "int", "str"], ["Union", "str", ["List", "int"]], ["Union", "int", ["List", "int"]], ["Optional", ["List", "int"]], ["Union", "float", "None"]):
        jobs.append(("append", dict(elem=el)))
    for kt, el in (("int", "str"), ("int", "int"), ("str", "int")):
        jobs.append(("dict_items", dict(keytype=kt, elem=el)))
    # two container members: an earlier member may convert some elements before it fails on a later one
    jobs.append(("union", dict(members=[["List", "PositiveInt"], ["List", "str"]], depth=1, pairs=True)))
    jobs.append(("union", dict(members=[["Dict", "PositiveInt"], ["Dict", "str"]], depth=1, pairs=True)))
    jobs.append(("union", dict(members=[["Tuple", "int", "int"], ["Tuple", "str", "str"]], depth=1, pairs=True)))
    jobs.append(("union", dict(members=[["Set", "int"], ["List", "str"]], depth=1, pairs=True)))
    jobs.append(("union", dict(members=[["Tuple", "float", "str"], ["Tuple", "int", "int"]], depth=1, pairs=True)))
    if tier == "thorough":
        jobs.append(("container", dict(head="List", elem=["Dict", "int"], depth=1)))
        jobs.append(("container", dict(head="Dict", elem=["Optional", ["List", "int"]], depth=1)))
        jobs.append(("container", dict(head="List", elem=["TupleVar", "int"], depth=1)))
        jobs.append(("container", dict(head="Optional", elem=["Union", "int", ["List", "str"]], depth=1)))
        jobs.append(("union", dict(members=["int", "str", "float", "None"])))
        jobs.append(("union", dict(members=[["Optional", "int"], "str"])))
        jobs.append(("fixed_tuple", dict(elems=["int", ["List", "int"]])))
    return jobs


def main(rep, tier):
    rep.functions = FUNCTIONS
    rep.stubs = [FORMAT_STUBS_NOTE]
    rep.rule = ("one path per (value shape chosen by solver integers, branch of the real adapt/validate code on the symbolic numeric leaves); "
                "non-trivial = the verdicts of the real code on the container/union and on its parts were compared")
    p = plan(tier)
    rep.bounds = dict(types=len(p), type_depth=2 if tier == "quick" else 3, container_elements="<=2", value_family="None|int|bool|real float|menu str|list<=2|dict{k}",
                      text_menu=TEXT_MENU, str_menu=STR_MENU)
    rep.assumptions = [
        "string values come from fixed menus of look-alike texts (symbolic strings are out of CrossHair's reach here)",
        "a top-level None is 'not set': whether None belongs to a type is decided structurally (Optional / None member), not by the code",
        "Literal membership follows Python's `in`; dict keys are checked only for str keys; sets are given in their serialised (list) form",
        "Union: accept/reject is compared across member orders, the returned value is not",
        "Callable/Type/Protocol hints, dataclass and subclass types, pydantic/attrs, jsonschema are outside (C14 covers class types)",
    ]
    jobs = [dict(module="c02", func=f, kwargs=kw, timeout=240 if tier == "quick" else 1200) for f, kw in p]
    results = run_jobs(jobs)
    fails = absorb(rep, results, require_tags=("accepted", "rejected"))
    groups = {}
    for cls, samples in fails.items():
        for smp in samples:
            groups.setdefault((cls, smp["harness"], json.dumps(smp["kwargs"], sort_keys=True)), []).append(smp)
    for (cls, hname, kws), samples in groups.items():
        reported = False
        for smp in samples:
            payload = dict(module="c02", func=hname, kwargs=smp["kwargs"], ordered=smp["values"].get("__order__", []))
            r = run_native("ch", "replay_path", payload)
            vals = dict(harness=hname, kwargs=kws, info=json.dumps(smp["info"], default=repr))
            if not r.get("reproduced"):
                rep.inconc(f"counterexample {cls} ({hname} {kws}) did not reproduce natively: {smp['info']} -> {r}")
                continue
            known = rep.match_finding(cls, vals)
            if known:
                rep.known_finding(known, f"{cls} {kws}")
            elif not reported:
                rep.violation(f"{cls} ({hname} {kws}): {smp['info']} :: {r.get('detail')}", dict(module="ch", func="replay_path", payload=payload, cls=cls))
                reported = True
