"""Components for the auto_cli check (C12). Every callee logs its call and returns a value built from its arguments."""
from typing import Dict, List, Literal, Optional

CALLS = []


def f1(a: int, b: float = 0.5, *, flag: bool = False, name: str = "n"):
    """First function."""
    CALLS.append(("f1", dict(a=a, b=b, flag=flag, name=name)))
    return ("f1", a, b, flag, name)


def f2(items: List[int], opt: Optional[float]):
    """Second function."""
    CALLS.append(("f2", dict(items=items, opt=opt)))
    return ("f2", items, opt)


def f3(lit: Literal["x", "y"] = "x", n: int = 3):
    """Third function."""
    CALLS.append(("f3", dict(lit=lit, n=n)))
    return ("f3", lit, n)


def f4(values: int = 1, items: str = "i", keys: Optional[int] = None, *, get: bool = False):
    """A function whose parameters are named like methods of the result namespace."""
    CALLS.append(("f4", dict(values=values, items=items, keys=keys, get=get)))
    return ("f4", values, items, keys, get)


def f5(seq: Optional[List[int]], mode: Optional[Literal["a", "b"]], *, table: Optional[Dict[str, int]]):
    """Optional parameters without default whose inner type is not a plain class: options defaulting to None."""
    CALLS.append(("f5", dict(seq=seq, mode=mode, table=table)))
    return ("f5", seq, mode, table)


def f6(z: float = 1.0, w: Optional[float] = 4.0, *, u: int | None, v: "str | None" = None):
    """float parameters that a config may give as the int equal to their default; PEP 604 optionals, one without default."""
    CALLS.append(("f6", dict(z=z, w=w, u=u, v=v)))
    return ("f6", z, w, u, v)


def f7(o: Optional[float] = 0.5, n: Optional[int] = 3, *, s: Optional[str] = "d"):
    """Optional parameters whose default is not None: an explicit null is a given value."""
    CALLS.append(("f7", dict(o=o, n=n, s=s)))
    return ("f7", o, n, s)


class K1:
    """A class with two methods."""

    def __init__(self, p: int, q: int = 2):
        CALLS.append(("K1.__init__", dict(p=p, q=q)))
        self.p, self.q = p, q

    def m1(self, r: int = 1):
        """Method one."""
        CALLS.append(("K1.m1", dict(r=r)))
        return ("m1", self.p, self.q, r)

    def m2(self, s: str, t: Optional[int] = None):
        """Method two."""
        CALLS.append(("K1.m2", dict(s=s, t=t)))
        return ("m2", self.p, self.q, s, t)


# name -> (callable, parameters: list of (name, kind, default or REQUIRED, concrete argv text, converted value))
REQUIRED = object()
PARAMS = {
    "f1": [("a", REQUIRED, "7", 7), ("b", 0.5, "2.5", 2.5), ("flag", False, "true", True), ("name", "n", "zed", "zed")],
    "f2": [("items", REQUIRED, "[1, 2]", [1, 2]), ("opt", None, "1.5", 1.5)],
    "f3": [("lit", "x", "y", "y"), ("n", 3, "9", 9)],
    "f4": [("values", 1, "9", 9), ("items", "i", "zed", "zed"), ("keys", None, "5", 5), ("get", False, "true", True)],
    "f5": [("seq", None, "[3, 4]", [3, 4]), ("mode", None, "b", "b"), ("table", None, '{"k": 2}', {"k": 2})],
    # fifth field: the value as a config writes it when that differs from the converted value (an int for a float parameter)
    "f6": [("z", 1.0, "1", 1.0, 1), ("w", 4.0, "4", 4.0, 4), ("u", None, "3", 3), ("v", None, "txt", "txt")],
    "f7": [("o", 0.5, "null", None), ("n", 3, "null", None), ("s", "d", "null", None)],
    "K1.__init__": [("p", REQUIRED, "4", 4), ("q", 2, "6", 6)],
    "K1.m1": [("r", 1, "8", 8)],
    "K1.m2": [("s", REQUIRED, "word", "word"), ("t", None, "5", 5)],
}
