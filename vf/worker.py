"""python -m vf.worker <props-module> <factory> <json-kwargs> <json-options>"""
from .ch import _worker_main

if __name__ == "__main__":
    _worker_main()
