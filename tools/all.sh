#!/bin/bash
# tools/all.sh [quick|thorough]  — run every claimed check in turn, print one line each
cd "$(dirname "$0")/.."
tier=${1:-quick}
for id in $(python3 -c "import json;print(' '.join(c['property_id'] for c in json.load(open('MANIFEST.json'))['checks']))"); do
  s=$(date +%s)
  out=$(./check $id $tier 2>&1)
  rc=$?
  e=$(date +%s)
  echo "$id rc=$rc wall=$((e-s))s $(echo "$out" | grep -c '^VIOLATION') violations, $(echo "$out" | grep -c '^KNOWN-FINDING') known, $(echo "$out" | grep -c '^INCONCLUSIVE') inconclusive"
  echo "$out" | grep -E '^(VIOLATION|INCONCLUSIVE)' | cut -c1-300 | head -5
done
