#!/usr/bin/env python3
"""tools/seed.py <seed-name> <worktree> <PROP> [--no-suite] — confirm a seeded change produced in a scratch worktree
(demo fails with it and passes without it, suite still green), store it under /verif/seeded/<name>/ and run the
property's quick check against the changed tree (VERIF_REPO=<worktree>)."""
import json
import os
import shutil
import subprocess
import sys

VERIF = os.path.dirname(os.path.dirname(os.path.abspath(__file__)))
name, wt, prop = sys.argv[1], sys.argv[2], sys.argv[3]
props = prop.split(",")
dst = os.path.join(VERIF, "seeded", name)
os.makedirs(dst, exist_ok=True)


def sh(cmd, **kw):
    return subprocess.run(cmd, shell=True, capture_output=True, text=True, **kw)


sh(f"cd {wt} && git diff -- jsonargparse > patch.diff")
env = f"PYTHONPATH={wt}"
with_change = sh(f"cd {wt} && {env} /venv/bin/python demo.py")
# not `git stash`: the stash is shared by all worktrees of a repository, parallel runs would swap their changes
sh(f"cd {wt} && git apply -R patch.diff")
without = sh(f"cd {wt} && {env} /venv/bin/python demo.py")
sh(f"cd {wt} && git apply patch.diff")
again = sh(f"cd {wt} && git diff --stat -- jsonargparse")
meta = dict(name=name, breaks=props, demo_with_change_rc=with_change.returncode, demo_without_change_rc=without.returncode,
            demo_with_change_tail=with_change.stdout[-600:], diffstat=again.stdout.strip())
if "--no-suite" not in sys.argv:
    r = sh(f"{VERIF}/tools/suite.py {wt}")
    meta["suite_with_change"] = r.stdout.strip().splitlines()[-2:] if r.stdout.strip() else r.stderr[-300:]
    meta["suite_ok"] = r.returncode == 0
for f in ("patch.diff", "demo.py", "NOTES.md"):
    if os.path.exists(os.path.join(wt, f)):
        shutil.copy(os.path.join(wt, f), os.path.join(dst, f))
checks = {}
for p in props:
    for tier in (["quick"] + (["thorough"] if "--thorough" in sys.argv else [])):
        r = subprocess.run([os.path.join(VERIF, "check"), p, tier], capture_output=True, text=True, env=dict(os.environ, VERIF_REPO=wt), cwd=VERIF)
        lines = [l for l in r.stdout.splitlines() if l.startswith(("VIOLATION", "  what", "KNOWN", "INCONCL", "["))]
        checks[f"{p}:{tier}"] = dict(rc=r.returncode, lines=[l[:400] for l in lines[:8]])
subprocess.run(["git", "-C", VERIF, "checkout", "--", "evidence"], capture_output=True)
meta["checks_against_changed_tree"] = checks
meta["ran"] = [f"demo.py with/without the change (PYTHONPATH={wt})", "tools/suite.py on the changed tree (BASELINE stable_pass set)", "./check <prop> quick with VERIF_REPO=<changed tree>"]
old = {}
mp = os.path.join(dst, "meta.json")
if os.path.exists(mp):
    old = json.load(open(mp))
old.update(meta)
json.dump(old, open(mp, "w"), indent=1)
print(json.dumps(meta, indent=1)[:3000])
