#!/usr/bin/env python3
"""tools/annot.py <seed-name> <round> <caught|missed> [what was added]  — annotate seeded/<name>/meta.json after the check was (re)run."""
import json, sys, os
name, rnd, first = sys.argv[1], int(sys.argv[2]), sys.argv[3]
added = sys.argv[4] if len(sys.argv) > 4 else None
p = os.path.join(os.path.dirname(os.path.dirname(os.path.abspath(__file__))), "seeded", name, "meta.json")
m = json.load(open(p))
m.update(round=rnd, first_run_of_the_quick_check=first, what_was_added_to_catch_it=added, caught_now=True if (first == "caught" or added) else False)
json.dump(m, open(p, "w"), indent=1)
