#!/usr/bin/env python3
"""tools/mut.py <mutant-id> [tier]  — apply one vetted mutant (vf/mutants.json) to a scratch
copy of /repo, run the property's check against it through VERIF_REPO, remove the copy.
tools/mut.py --all [tier] runs every mutant (sequentially) and prints a table."""
import json
import os
import shutil
import subprocess
import sys
import tempfile

VERIF = os.path.dirname(os.path.dirname(os.path.abspath(__file__)))
MUTS = json.load(open(os.path.join(VERIF, "vf", "mutants.json")))


def run(m, tier):
    d = tempfile.mkdtemp(prefix="mut_", dir="/tmp")
    try:
        subprocess.run(f"git -C /repo archive HEAD | tar -x -C {d}", shell=True, check=True)
        # include uncommitted working tree state of /repo's package
        subprocess.run(f"rsync -a --delete /repo/jsonargparse/ {d}/jsonargparse/", shell=True, check=True)
        p = os.path.join(d, "jsonargparse", m["file"])
        s = open(p).read()
        if s.count(m["old"]) != 1:
            return "PATCH-FAILED(%d)" % s.count(m["old"]), ""
        open(p, "w").write(s.replace(m["old"], m["new"]))
        env = dict(os.environ, VERIF_REPO=d)
        out = []
        rcs = []
        for prop in m["props"]:
            r = subprocess.run([os.path.join(VERIF, "check"), prop, tier], capture_output=True, text=True, env=env, cwd=VERIF)
            rcs.append(r.returncode)
            out.append(r.stdout[-1500:] + r.stderr[-500:])
        return rcs, "\n".join(out)
    finally:
        shutil.rmtree(d, ignore_errors=True)
        subprocess.run(["git", "-C", VERIF, "checkout", "--", "evidence"], capture_output=True)


def main():
    tier = sys.argv[2] if len(sys.argv) > 2 else "quick"
    ids = [m["id"] for m in MUTS] if sys.argv[1] == "--all" else sys.argv[1].split(",")
    for m in MUTS:
        if m["id"] in ids:
            rcs, out = run(m, tier)
            print(f"{m['id']:28s} expect={m['expect']:7s} props={m['props']} rc={rcs}")
            if len(ids) == 1 or "-v" in sys.argv:
                print(out)


if __name__ == "__main__":
    main()
