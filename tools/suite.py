#!/usr/bin/env python3
"""tools/suite.py [dir]  — run the repository's pinned test suite in `dir` (default /repo) and
list every test of BASELINE.json's stable_pass set that did not pass."""
import json
import os
import subprocess
import sys
import tempfile
import xml.etree.ElementTree as ET

d = sys.argv[1] if len(sys.argv) > 1 else "/repo"
base = json.load(open("/root/.vp/BASELINE.json"))
stable = set(base["stable_pass"])
fd, xml = tempfile.mkstemp(suffix=".xml")
os.close(fd)
env = dict(os.environ)
env.pop("JSONARGPARSE_VERIF", None)
env["PYTHONPATH"] = d
r = subprocess.run(["/venv/bin/python", "-m", "pytest", "-q", "-p", "no:cacheprovider", "--timeout=900", "--continue-on-collection-errors",
                    f"--junitxml={xml}", "-x" if "-x" in sys.argv else "-q"], cwd=d, capture_output=True, text=True, env=env)
passed = set()
for tc in ET.parse(xml).getroot().iter("testcase"):
    if not any(ch.tag in ("failure", "error", "skipped") for ch in tc):
        passed.add(f"{tc.get('classname')}::{tc.get('name')}")
os.unlink(xml)
missing = sorted(stable - passed)
print(r.stdout.strip().splitlines()[-1])
print(f"stable_pass: {len(stable)}  passed now: {len(stable & passed)}  NOT passing: {len(missing)}")
for m in missing[:40]:
    print("  ", m)
sys.exit(1 if missing else 0)
