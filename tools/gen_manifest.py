#!/usr/bin/env python3
"""Regenerate /verif/MANIFEST.json from the table below (one place to edit)."""
import json
import os

VERIF = os.path.dirname(os.path.dirname(os.path.abspath(__file__)))

BASELINE = "cd /repo && /venv/bin/python -m pytest -ra -q -p no:cacheprovider --timeout=900 --continue-on-collection-errors"

# id -> (engine, technique, level text, level note, design ref)
CHECKS = {
    "C16": (
        "E-CH",
        "CrossHair/z3 symbolic execution of the real DirectedGraph and link/instantiate code: exhaustive path trees over symbolic node labels and link bits",
        "Bounded symbolic model checking of the real code. Kernel: DirectedGraph.add_edge/get_topological_order run on k edges whose 2k "
        "node labels are unconstrained z3 integers; CrossHair's path tree (exhausted) is exactly the set of equality patterns, i.e. every "
        "graph with <= k edges (k=3 quick, 4 thorough) in every insertion order, judged against Kahn's algorithm; in addition every directed "
        "graph without self loops on 4 concrete nodes (one solver bit per ordered pair, three insertion orders; 5 nodes = 2^20 graphs in the "
        "thorough tier). End to end: three class "
        "groups, all 64 subsets of the six possible instantiate-links chosen by solver bits, symbolic int parameters, real "
        "link_arguments/parse_object/instantiate_classes, constructor log checked for order, exactly-once and parameter feeding; nested targets "
        "one and two levels below a component added before/between/after the plain links; self links; None-valued source attributes.",
        "Trusted: CrossHair 0.0.110's interception of ==/list.index/in on symbolic ints and z3; format() of symbolic numbers stubbed to a "
        "placeholder. Outside the bound: graphs with more edges, more than three components, subclass-typed (class_path) components.",
        "DESIGN.md §4 C16",
    ),
}

CHECKS["C19"] = (
    "E-CH",
    "CrossHair/z3 symbolic execution of the real Path.__init__ against a symbolic file system (kinds and permission bits are z3 variables), exhaustive per mode",
    "Bounded symbolic model checking of the real code. jsonargparse._util.os is replaced by a delegating fake whose access/stat/isdir/"
    "isfile answer from z3 variables (kind and r/w/x of the path, its parent, grand-parent and the cwd); for every valid mode string "
    "with <= 2 flags (quick) / <= 4 flags (thorough) and six spellings CrossHair exhausts the path tree of Path.__init__ and each path "
    "is compared with the class docstring read as a predicate: accept iff the mode is satisfied, every rejection is PathError, "
    "relative/absolute bookkeeping. change_to_path_dir is run nested to depth 2/3 with solver-chosen path kinds and a raising body; "
    "nested config files with relative Path_fr arguments are parsed from five working directories on a real directory tree."
    " The nested-config harness includes an entry config file that is a symbolic link into another directory holding decoys.",
    "Trusted: the file-system model (chain of four nodes, no symlinks, searchable ancestors), the docstring reading used as oracle, "
    "CrossHair/z3. Outside: URL/fsspec modes (u, s), an existing FIFO under a mode with f and c, symlinks, real permission bits (the "
    "sandbox runs as root, so permission-dependent counterexamples are replayed against the fake os only).",
    "DESIGN.md §4 C19",
)

CHECKS["C11"] = (
    "E-CH",
    "CrossHair/z3 symbolic execution of the real Namespace class over symbolic operation histories, compared with a nested-dict reference model",
    "Bounded symbolic model checking of the real code. The history itself is the solver's input: per step z3 integers choose one of 7 "
    "mutators (item/attribute assignment, del, pop, update with a namespace, update with key, update only_unset), a dotted key (ordinary "
    "names, method-name clashes, depth <= 2; thorough: depth 3 and more clashes) and a value kind; leaf values are symbolic ints. After "
    "every step all observers (getitem, in, get, items/keys/values with and without branches, as_dict, clone and its independence, ==, "
    "dict conversions, dotted vs. step-by-step access) are compared with a nested-dict model. All histories of length <= 2 are exhausted "
    "(quick and thorough), length 3 over a reduced alphabet in the thorough tier."
    " Leaves that are lists of namespaces are a fifth value kind (k <= 2), and after the read-only observers the namespace must still equal the model.",
    "Trusted: the 60-line reference model (an assignment through a leaf turns it into a branch; del of a missing key raises), CrossHair/z3. "
    "Outside: histories longer than the bound, dict-valued leaves and keys that traverse them, histories not starting from the empty namespace.",
    "DESIGN.md §4 C11",
)

CHECKS["C01"] = (
    "E-SMT+E-CH",
    "z3 regular-language queries over the live yaml resolver tables / representer output languages (every scalar string) + CrossHair symbolic execution of parse_object/dump/re-parse on parser shapes with symbolic leaves",
    "Bounded symbolic model checking of the real code in two layers. Text layer: the implicit-resolver tables of the Dumper class that "
    "yaml_dump really uses and of the default (and omegaconf) loader are read from the running code, their regular expressions are "
    "translated mechanically to z3 and the solver decides for every string (|s| <= 32; unbounded in the thorough tier, cross-checked "
    "with cvc5) whether a str can be written plain and read back as another type, and whether every int/float/bool/null representer "
    "or json.dumps output is read back as the same type; sat models are replayed through parse_object/dump/parse_string/save/parse_path. "
    "Adapter layer: for 17 parser shapes (scalars, unions, lists, dicts, tuples, set/literal/enum, restricted, registered, dataclasses, "
    "subclass specs incl. defaults, groups, subcommands, class groups) CrossHair exhausts parse_object -> dump (dict captured before "
    "the text) -> parse_object with symbolic leaves, kinds and lengths, with skip_default off and on. Through the real text (three "
    "formats, --print_config, save/parse_path; solver-chosen concrete inputs): registered types, and 30 strings whose characters stress "
    "emitters and scanners (non-BMP, control, YAML indicators) at five positions; skip_default dumps before/after the parser's defaults "
    "change. Thorough runs the real-text route for every shape.",
    "Trusted: quoted scalars load as str, dict/list structure survives the text round trip (PyYAML/json), the regular models of "
    "representer outputs (validated by sampling each run), CrossHair/z3, floats as reals. Outside: yaml_comments/toml/jsonnet formats, "
    "multi-line strings, symbolic strings in the adapter layer (menu only).",
    "DESIGN.md §4 C01",
)

CHECKS["C03"] = (
    "E-SMT+E-CH",
    "z3 queries over the live yaml resolver table for scalars whose constructor raises (witnesses replayed through every text entry point) + CrossHair-driven fault injection at the yaml.load boundary",
    "Bounded symbolic model checking of the loader boundary of the real code. z3 finds, from the resolver table read out of the running "
    "loader, the strings (|s| <= 32) that are tagged int/float but on which PyYAML's constructor raises ValueError - inputs the loader's "
    "declared exception set does not cover; every witness is replayed through nine entry points (parse_string, parse_path, --cfg text and "
    "file, env config, default config file, typed option values, env variable) in both exit_on_error modes, and only ArgumentError / "
    "exit status 2 with usage+error on stderr may leave the call. A CrossHair harness then injects, at yaml.load, a solver-chosen fault "
    "(YAMLError, ValueError, non-dict return values) at a solver-chosen entry point and mode; a leaking fault is reported only through "
    "its concrete witness on the unmodified loader. Two solver-enumerated grids run concretely: ill-formed values x 23 typed options x 14 "
    "channels (incl. subcommand channels, a prior class spec, --print_config, loaded objects) and malformed option names / config keys "
    "(12 bases x 22 suffixes x prefixes x value forms x 7 channels); a fixed battery holds the document-structure cases (deep nesting, "
    "aliases, parse_path of missing/non-text files, NUL bytes, scalar subcommand sections, broken default config files).",
    "Trusted: the candidate fail languages of the int/float constructors (validated by solver-generated samples each run). Outside: argv "
    "items as symbolic strings (option names and values are solver-chosen members of finite grammars, run concretely), parser modes other "
    "than yaml, ints beyond 4300 digits except one battery case.",
    "DESIGN.md §4 C03",
)
CHECKS["C05"] = (
    "E-SMT+E-CH",
    "z3 inclusion queries: every JSON scalar literal is typed identically by the yaml and omegaconf resolver tables (unbounded length) + CrossHair symbolic execution of parse_object over three object spellings and solver-chosen concrete settings over six text channels",
    "Bounded symbolic model checking of the real code. E-SMT: with the RFC 8259 number grammar as input domain, z3 shows for strings of "
    "any length that the yaml-mode and omegaconf-mode resolver tables (read from the live loaders) give every JSON literal its JSON type, "
    "so a JSON document is read identically under the yaml, json and omegaconf modes. E-CH: for 12 parser shapes the same symbolic "
    "settings are parsed as nested dict, as flat dict with dotted keys and as Namespace (path trees exhausted); solver-chosen concrete "
    "settings are additionally rendered as argv options, --cfg string, parse_string under three parser modes, environment variables, and "
    "environment variables after the parser's env_prefix was reassigned; "
    "all channels must agree on accept/reject and on the result, type for type.",
    "Trusted: json mode as the reference reading of a JSON document, PyYAML/json scanners for strings, CrossHair/z3. Outside: jsonnet/toml "
    "modes, JSON string escapes, strings at non-str positions, null at non-Optional positions (undecided in the docs).",
    "DESIGN.md §4 C05",
)

CHECKS["C20"] = (
    "E-CH+E-SMT",
    "CrossHair/z3 symbolic execution of the real restricted-number validation function (symbolic value, references, operators, join) + z3 regular-language inclusion for range/timedelta/restricted strings + solver-enumerated menus for constructors and registered types",
    "Bounded symbolic model checking of the real code. Kernel: the validation function that restricted_number_type really creates is run "
    "on a symbolic value (int, bool, real float) against symbolic integer references with solver-chosen operators (all 6, all pairs; "
    "triples in the thorough tier) and join; each exhausted path tree covers all values and references at once and is compared with "
    "the comparisons themselves. The constructor (validate, cast, idempotence, result type) is checked through 9 predefined/generated "
    "types on 27 candidate values. E-SMT: the serializer's output language is included in what the deserializer accepts for range "
    "(live re_range_* patterns, unbounded digits) and timedelta (patterns captured from the live deserializer); restricted string types "
    "accept exactly their regex language on solver-generated members, non-members and near-misses. Registered types (range, timedelta, "
    "Decimal, complex, bytes, bytearray, UUID, pathlib, SecretStr) round trip through serializer/deserializer, dump/parse_string and "
    "the command line on solver-enumerated menus; secrets never appear in dumps."
    " For every registered type the parsed value is handed to a caller that mutates it (bytearray, list) before the same text is parsed again on the same and on a fresh parser.",
    "Trusted: CrossHair/z3, floats as reals, the regular models of str(timedelta)/range_serializer output (validated on samples). "
    "Outside: float rounding, values beyond the menus for the C-implemented codecs (decimal, base64, uuid, datetime).",
    "DESIGN.md §4 C20",
)

CHECKS["C02"] = (
    "E-CH",
    "CrossHair/z3 symbolic execution of parse_object/parse_args on one real parser per type hint; relational oracles (container vs. elements, Union vs. OR of members, all member permutations) evaluated by the real code itself",
    "Bounded symbolic model checking of the real code. For ~45 type hints (7 leaf types; List/Dict/Set/Tuple/Optional over them; fixed "
    "tuples; 10+ Unions in every member order; depth-2 nestings; ~90 and depth 3 in the thorough tier) values are drawn from a bounded "
    "shape family whose shape is chosen by solver integers and whose numeric leaves are symbolic. Each exhausted path tree checks (1) an "
    "accepted result conforms structurally to the hint, (2) a strictly conforming value is never rejected (and returned unchanged when it "
    "holds no strings), (3) a container is accepted iff every element is accepted in element position, a fixed tuple iff arity and "
    "elements agree, a Union iff some member accepts - for every permutation of the members, through objects and through argv texts."
    " Session-3 additions: '--x+=text' appends on List[elem] whose element type is a Union with a sequence member (accepted iff the element type accepts the text), and '--x.KEY=text' item options on int- and str-keyed Dict hints, alone and after an earlier value (keys of the declared type, earlier items kept, a repeated item replaced; mappings mixing key types judged key by key).",
    "Trusted: the 40-line structural predicate strict_conforms (Literal membership as Python `in`), CrossHair/z3, floats as reals, "
    "restricted-int leaves from a window. Outside: symbolic strings (fixed menus of look-alike texts), Callable/Type/Protocol hints, "
    "class types (C14), value equality across Union orders.",
    "DESIGN.md §4 C02",
)

CHECKS["C10"] = (
    "E-CH",
    "CrossHair/z3 symbolic execution of parse_object -> validate -> parse_object -> dump on parser shapes with symbolic leaves (fixed-point assertions), and of adapt_typehints twice on a type grammar",
    "Bounded symbolic model checking of the real code. For 16 parser shapes with symbolic leaves, kinds and lengths (path trees "
    "exhausted): every configuration returned by parse_object validates, parses again as an object to an equal configuration type "
    "for type, and the dict that dump serialises is a normal form (dumping the re-parsed dump gives the same dict). Kernel: "
    "adapt_typehints applied twice equals once, and serialise->deserialise returns the adapted value, on 20 type hints of the C02 "
    "grammar. The command line as the channel: 16 argv forms (class choices incl. a class without parameters, sub-options, appends, "
    "Optional[dataclass] options) on three kinds of default, with validate / parse_object / dump-parse-dump byte identity. Thorough: byte identity dump(parse_string(dump(cfg))) == dump(cfg) through the real text in three formats on "
    "solver-chosen concrete leaves.",
    "Trusted: CrossHair/z3, floats as reals, the text stub (dict captured before serialisation) in the quick tier. Outside: byte "
    "identity for all values, Path types, str leaves beyond the menus.",
    "DESIGN.md §4 C10",
)

CHECKS["C08"] = (
    "E-CH",
    "CrossHair/z3 symbolic execution of each public operation on parser shapes with symbolic leaves and a solver-chosen invalid-input bit; deep before/after snapshots (value, type, identity) of arguments, parser defaults and process globals",
    "Bounded symbolic model checking of the real code. For 12 operations (parse_object with dict and Namespace, parse_args with "
    "namespace=, validate on parsed and on hand-built namespaces, dump, save, merge_config, strip_unknown, instantiate_classes, "
    "get_defaults, format_help) and 8 parser shapes (11 thorough; nested lists, tuples holding lists, dicts of lists, sets, dataclasses, "
    "class specs from defaults, class groups, groups) CrossHair exhausts the operation's path tree on symbolic leaves with and without "
    "an invalid value injected (the call then raises midway); a deep snapshot of every argument (structure, concrete container types, "
    "id() of every nested container, leaf values), of get_defaults(), cwd, os.environ, argparse.Namespace and sys.argv is compared "
    "afterwards. instantiate_classes is run twice: same classes, no object shared between the two results."
    " Operations in which the parsed keys have no previous value (parse_object defaults=False, parse_string, parse_env) run on a class argument whose declared default is a class spec with init_args; declared defaults include Namespace-valued ones; the default-config-file shape has an untyped positional.",
    "Trusted: CrossHair/z3, the text stub for dump/save. Outside: lists of argument strings (only the empty argv with a namespace= is "
    "exercised), I/O failures during save, parsers outside the shape list.",
    "DESIGN.md §4 C08",
)

CHECKS["C18"] = (
    "E-CH",
    "CrossHair/z3-driven exhaustive fault schedules (overwrite, multifile, pre-existing files, loaded-from-sub-files, fault kind, invalid value) around the real save() on real files; directory snapshots by SHA-256",
    "Bounded model checking of the real save() over its fault schedule. The solver enumerates every combination of overwrite, "
    "multifile, target exists, sub-file exists, configuration loaded from sub-files or built as an object, and fault kind (none, a value "
    "that fails validation chosen from a window, a value that validates but cannot be serialised, an invalid value inside a section "
    "that goes to a sub-file); for each schedule save() runs on real files in a fresh directory whose snapshot (names, sizes, SHA-256) "
    "is compared before and after: a refused overwrite leaves pre-existing files byte-identical, a failing save leaves the directory "
    "exactly as it was in single- and multi-file mode, and a successful save parses back (parse_path) to the saved configuration, "
    "sub-file sections included. Thorough repeats the schedule for json and json_indented."
    " Sub-file references with a directory component, an edit made after loading, a layout whose only sub-file belongs to a Dict argument, and two sub-files of equal base name were added in session 3.",
    "Trusted: the local file system. Outside: I/O errors in the middle of a write, fsspec targets, jsonnet/jsonschema sub-files.",
    "DESIGN.md §4 C18",
)

CHECKS["C04"] = (
    "E-CH",
    "CrossHair/z3 exhaustive exploration of source-presence vectors (and argv orders) with a symbolic object-channel int, real files and environment variables per path, compared with a reference fold",
    "Bounded model checking of the real precedence code. For four key kinds (flat, nested, list with '+' appends, dict with item "
    "assignments), four parse methods and the three default_env modes the solver enumerates every subset of up to nine sources "
    "(defaults, default config file, second one through a glob pattern, environment config, environment variable, namespace=, --cfg "
    "text, option, '+' append / dict item / second option, second --cfg text) - and, in the thorough tier, all 24 orders of the "
    "command line items - with the namespace value a symbolic int; files and environment variables are really written per path and "
    "the final value of the key is compared with a 25-line fold over the sources in the documented order (replace, append, set item)."
    " A sixth key kind, Union[int, List[int]] appended to with scalars, and a directory that the default-config pattern matches were added in session 3.",
    "Trusted: the reference fold (namespace= folded between environment and command line; a dict in a config replaces the dict). "
    "Outside: values in text sources are concrete; config arguments inside sub-parsers, URLs/fsspec, jsonnet ext_vars.",
    "DESIGN.md §4 C04",
)

CHECKS["C15"] = (
    "E-CH",
    "CrossHair/z3 symbolic execution of parse_object/dump/re-parse on five link shapes with symbolic source values and a solver-chosen value supplied for the target itself",
    "Bounded symbolic model checking of the real code. Five link shapes (plain->plain, two sources through a compute function, "
    "group-valued source into a dict-typed target, plain source into init_args of a class argument, into the items of a list of "
    "classes); source values are symbolic ints set through the object or left at their defaults, a solver bit supplies a symbolic value "
    "for the target itself (directly or through the enclosing class spec), class and list length are solver choices. On every accepted "
    "parse the target equals the function of the final source values; the dict that dump serialises has no target key and re-parsing "
    "it reconstructs the target (path trees exhausted). A concrete part checks the API facts without a symbolic dimension: the option "
    "of a plain target is rejected, the target is not required, env/argv sources, chains and double targets are refused at link "
    "creation, single- and multi-file save (incl. a target inside a section written to a sub-file) hold no target and re-parse."
    " Links that live only in a sub-parser (values arriving through the root parser's object/string/--cfg/argv channels) and two consecutive parses on one parser with ==-equal sources of different type under a type-sensitive compute_fn were added in session 3.",
    "Trusted: CrossHair/z3, text stub for dump. Outside: instantiate-links (C16), links across subcommands, symbolic values in env/argv.",
    "DESIGN.md §4 C15",
)

CHECKS["C09"] = (
    "E-CH",
    "CrossHair/z3 exhaustive exploration of operation histories on a reused real parser (symbolic ints in the object operation), each step compared with the same operation on a fresh parser and with its outcome in a pristine process",
    "Bounded model checking of the real parser over its history. The history is the solver's input: an integer picks one of 25 "
    "operations (27 thorough; class changes through parse_string / parse_env / defaults=False on an argument whose default is a class spec, "
    "a failure inside a --cfg text after a class was chosen, init_args without a class; successful and failing parse_args, --help, --print_config, --print_config followed by an invalid option at "
    "top level and inside a subcommand, --cfg texts holding sections for two subcommands with and without an explicit choice, "
    "parse_object ok/failing with symbolic ints, parse_string, parse_env, get_defaults, dump, validate, instantiate_classes) at each "
    "of k <= 2 steps (k = 3 over 10 operations in the thorough tier) on a parser with required subcommands, config arguments at both "
    "levels, a default config file, a class argument and a parse link. After every step the outcome (result with meta stripped | "
    "ArgumentError text | exit status + stdout) must equal the outcome of that operation on a fresh parser; for concrete operations the "
    "reference is computed in a process of its own, so state kept outside the parser cannot hide on both sides; an untouched parser "
    "built before the history is compared at the end.",
    "Trusted: CrossHair/z3. Outside: longer histories, other parser factories, operations whose text outcome depends on symbolic values.",
    "DESIGN.md §4 C09",
)

CHECKS["C17"] = (
    "E-CH",
    "CrossHair/z3 symbolic execution of parse_object on subcommand trees (selector presence/name, section presence per level as solver choices, symbolic leaf ints) compared with a selection model; solver-enumerated argv/config/environment combinations",
    "Bounded symbolic model checking of the real code. Subcommand trees of depth 1-2 with 3 (+2) subcommands, required and optional, a "
    "global option, config arguments, and three kinds of default config file. The solver chooses whether the selector key is present "
    "and which name it holds (incl. an unknown one), which subcommands have a section at each level and whether the global is given; "
    "leaf ints are symbolic (object channel) - path trees exhausted. The result is compared with a 20-line selection model at every "
    "level: the stored choice, the chosen section = sub-parser defaults overlaid with the given values, no section of any other "
    "subcommand, failure iff the model says so. The same through --cfg text and parse_string, and every combination of a name on "
    "argv, in the config, in the environment and a section in the config (256 combinations per mode)."
    " A naming variant runs the selection harness with subcommands named like Namespace methods; the command line may name a subcommand without repeating its option, so settings given for it in a config must survive.",
    "Trusted: the selection model (named on argv, else named in config/env, else first in declaration order with settings, else error "
    "if required). Outside: depth 3, default config files inside sub-parsers, empty sections.",
    "DESIGN.md §4 C17",
)

CHECKS["C14"] = (
    "E-CH",
    "CrossHair/z3 symbolic execution of parse_object + instantiate_classes on class-typed arguments: solver-chosen class of an importable family, spec form, given init_args and their kinds, symbolic values; constructor log compared with the configuration",
    "Bounded symbolic model checking of the real code. The spec for an argument typed with a class names, by solver choice, one of 8 "
    "importable objects (the base, three subclasses incl. a **kwargs one, an unrelated class, a callable returning the base, a "
    "non-class, a missing module) in one of 5 forms (explicit dict, import path string, class name only, class_path first then "
    "init_args on top, init_args on top of a default instance); which init_args are given, their kind (int, bool, None, str, float) "
    "and an unknown name are solver choices, values symbolic. Accept/reject is compared with the structural rule (subclass or callable "
    "returning one; every init_arg valid for that very class; no unknown names); after instantiate_classes the object is of exactly "
    "the named class, built once, with exactly the configured init_args plus dict_kwargs. A nested harness checks a holder with a "
    "class-typed parameter and a list of classes (built first, passed by identity) and an abstract base; a concrete harness compares "
    "six short notations (argv and object) with the explicit form."
    " Two more harnesses: class_path naming functions judged by their annotated return type, and a Dict[str, Base] argument given twice where every key must equal what a plain class argument yields for the same two values.",
    "Trusted: the structural validity rule per parameter kind (None is 'not set' and never a reason to reject), CrossHair/z3. Outside: "
    "Protocols, class changes between text sources, Dict/Union-of-class parameters, symbolic class_path strings.",
    "DESIGN.md §4 C14",
)

CHECKS["C06"] = (
    "E-CH",
    "CrossHair/z3-enumerated tampering positions (foreign key position x value kind, required key x removed/nulled) x five input channels on a real parser with required members at every nesting level; symbolic leaf ints in the baseline",
    "Bounded model checking of the real validation code over tampering positions. One parser has required members at the top level, in a "
    "group, in a dataclass field, in the init_args of a class argument, in the items of a list of dataclasses, in Optional and Dict "
    "dataclass values and in a subcommand section. The solver picks where a foreign key is inserted (9 positions x 4 value kinds) or "
    "which required key is removed or nulled (10 keys, incl. the required subcommand), and one of five channels (object, parse_string, "
    "--cfg text, argv, environment); every tampered configuration must be rejected with ArgumentError and, for foreign keys, the "
    "message must name the key; the untouched configuration parses for all (symbolic) leaf ints; parse_known_args refuses outside "
    "callers. The path tree is exhausted; the solver's share is the position/kind/channel, leaf values of tampered configs are concrete "
    "because the real message formatting is part of the assertion."
    " Every channel is also run with defaults=False, and the section of the selected subcommand is emptied/removed when the required key was the only thing in it; a class argument whose own parameter is a link target while its dataclass parameter has a required field of the same name.",
    "Trusted: the choice of parser shape. Outside: other shapes, empty mappings left behind by a removal (Optional[...] reads {} as None).",
    "DESIGN.md §4 C06",
)

CHECKS["C07"] = (
    "E-CH",
    "CrossHair/z3 symbolic execution of parse_object and dump on four parsers that declare the same group in four styles, fed the same solver-chosen value kinds with symbolic ints; relational comparison of the four outcomes; solver-enumerated concrete inputs through five text channels",
    "Bounded symbolic model checking of the real code, relational. For a field list (a required List[int], an int with default, an "
    "Optional[float]; thorough adds bool, str and a nested dataclass) four parsers are built with the real API: dotted add_argument "
    "calls, a dataclass-typed argument, add_class_arguments under the key, an inner parser attached with ActionParser. The solver picks "
    "per field one of 9 value kinds (absent, int, bool, None, lists of 0-2, str, float) with symbolic ints and whether an empty group is "
    "given; the four parse_object outcomes must agree (all reject, or equal nested values) and so must the dicts dump serialises "
    "(path trees exhausted). The same through argv dotted options, '+' appends, whole-group JSON (three styles), a config string and "
    "environment variables on concrete values, including the dump text."
    " Field list G4 states defaults that differ from the class's own, for the dataclass style as a default instance whose Dict[str, dataclass] member holds dataclass instances.",
    "Trusted: CrossHair/z3; comparison as nested plain values. Outside: other field lists, instantiation of the group, help text.",
    "DESIGN.md §4 C07",
)

CHECKS["C12"] = (
    "E-CH",
    "CrossHair/z3 symbolic execution of auto_cli on a fixed module of components: solver-chosen component/method, one given-bit per parameter, symbolic set_defaults ints; call log and return value compared with the binding rule",
    "Bounded symbolic model checking of the real code; the claim is weak by nature: signatures are configurations (three functions with "
    "positional-or-keyword, keyword-only, Optional-without-default, List and Literal parameters, and a class with two methods) arranged "
    "in seven layouts (single component, list, nested dict). The solver chooses the component and method, for every parameter whether "
    "it is given (argv positional/option, or all through --config) and whether set_defaults overrides its default with a symbolic int. "
    "auto_cli must call exactly the selected callee(s) once, bind every parameter to the given value converted to the declared type, "
    "else to the set_defaults value, else to the signature default (None for Optional without default); a missing required parameter "
    "makes the call fail with ArgumentError before any callee runs; constructor and method each receive only their own parameters; "
    "the return value is the callee's. Path trees exhausted."
    " Components f6/f7 add float defaults given as equal ints through a config, PEP 604 optionals, and explicit nulls for Optional parameters whose default is not None.",
    "Trusted: CrossHair/z3. Outside: generated signatures beyond the fixed module (programs are not solver variables), the "
    "components=None module scan, async callees, methods with a config parameter.",
    "DESIGN.md §4 C12",
)

NOT_APPLICABLE = {
    "C13": "the resolver's only input is source code on disk (inspect.getsource/ast.parse/import); a symbolic program cannot be "
    "represented for that code and types/defaults are part of the program, so no dimension of the quantifier can be a solver variable",
}

NOT_BUILT = "check not built yet in this round (planned in DESIGN.md §4); not claimed until it passes the validation steps of DESIGN.md §6"


def main():
    props = [json.loads(l)["id"] for l in open(os.path.join(VERIF, "properties.jsonl"))]
    checks = []
    na = []
    for pid in props:
        if pid in CHECKS:
            engine, tech, text, note, ref = CHECKS[pid]
            checks.append(
                dict(
                    property_id=pid,
                    quick_cmd=f"./check {pid} quick",
                    thorough_cmd=f"./check {pid} thorough",
                    evidence_file=f"/verif/evidence/{pid}.json",
                    replay_cmd_template="./check --replay {path}",
                    engine=engine,
                    level_claimed=dict(category="model_checking", text=text, design_ref=ref),
                    level_note=note,
                    technique=tech,
                )
            )
        else:
            na.append(dict(property_id=pid, reason=NOT_APPLICABLE.get(pid, NOT_BUILT)))
    man = dict(
        version=1,
        setup_cmd="./setup.sh",
        hooks=dict(
            guard="JSONARGPARSE_VERIF",
            enable="no source hooks are needed: every stub is a monkey-patch applied inside the check's own process; ./check exports JSONARGPARSE_VERIF=1 for form",
            baseline_off_cmd=BASELINE,
            source_commits=[],
            add_only=True,
        ),
        engines=[
            dict(name="E-CH", path="vf/ch.py", serves_properties=[p for p, c in CHECKS.items() if "E-CH" in c[0]],
                 kind_free_text="own driver over CrossHair 0.0.110 explore_paths: symbolic execution of the real jsonargparse functions with z3; exhaustive path trees, counterexamples read from the path's z3 model and replayed natively"),
            dict(name="E-SMT", path="vf/rx.py", serves_properties=[p for p, c in CHECKS.items() if "E-SMT" in c[0]],
                 kind_free_text="z3 (cross-checked with cvc5) queries over regular expressions and resolver tables read from the live jsonargparse/PyYAML objects; sat models replayed through the public API"),
        ],
        checks=checks,
        not_applicable=na,
        notes="Exit codes: 0 held on everything explored; 1 reproduced violation (VIOLATION line); 2 inconclusive/harness error (never a VIOLATION line). "
        "Known findings: /verif/known_findings.json. Seeded changes: /verif/seeded/. Vetted mutants: vf/mutants.json (tools/mut.py).",
    )
    with open(os.path.join(VERIF, "MANIFEST.json"), "w") as f:
        json.dump(man, f, indent=1)
    print("claimed:", [c["property_id"] for c in checks], "not applicable:", [n["property_id"] for n in na])


if __name__ == "__main__":
    main()
