#!/bin/bash
# Build the overlay venv used by every check: /venv's packages (jsonargparse's own
# dependencies) + crosshair-tool, z3-solver, cvc5 from the offline wheelhouse.
set -e
cd "$(dirname "$0")"
V=/verif/.venv
if [ ! -x "$V/bin/python" ] || ! "$V/bin/python" -c "import crosshair, z3, yaml" 2>/dev/null; then
  rm -rf "$V"
  /venv/bin/python -m venv "$V"
  SP=$("$V/bin/python" -c "import sysconfig; print(sysconfig.get_paths()['purelib'])")
  echo "import site; site.addsitedir('/venv/lib/python3.12/site-packages')" > "$SP/verif_overlay.pth"
  PIP_NO_INDEX=1 "$V/bin/pip" install -q --no-index --find-links /opt/veriftools/wheels crosshair-tool cvc5 >/dev/null
fi
"$V/bin/python" -c "import crosshair, z3, yaml; print('overlay ok', crosshair.__version__, z3.get_version_string())"
